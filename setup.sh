#!/bin/sh
# builds the verifier offline from the module cache
cd "$(dirname "$0")/govc" || exit 2
export GOFLAGS=-mod=mod GOPROXY=off GOSUMDB=off GOTOOLCHAIN=local
mkdir -p ../bin ../out ../evidence
go build -o ../bin/govc . || exit 2
echo "govc built"
