#!/usr/bin/env python3
# Emits the keyword table of the lexer as a spec predicate (read from the switch on the
# lower-cased identifier text in libvore/ast/lexer.go) and the case-insensitivity clause.
import re,sys
src=open('/repo/libvore/ast/lexer.go').read()
i=src.index('case SIDENTIFIER:')
j=src.index('case SWHITESPACE:', i) if 'case SWHITESPACE:' in src[i:] else len(src)
blk=src[i:j]
# stop at the end of the inner switch: first line starting with "\tcase S"
m=re.search(r'\n\tcase S[A-Z_0-9]+:', blk[10:])
if m: blk=blk[:10+m.start()]
pairs=re.findall(r'case ((?:"[a-z]+"(?:,\s*)?)+):[^\n]*\n\s*token\.TokenType = ([A-Z_0-9]+)', blk)
table=[]
for names,tok in pairs:
    for n in re.findall(r'"([a-z]+)"', names):
        table.append((n,tok))
expr='IDENTIFIER'
for n,tok in reversed(table):
    expr=f'(s == "{n}" ? {tok} : {expr})'
print()
print('// ---- keyword recognition (C15): the token type of a word is a function of its lower-cased text ----')
print(f'// {len(table)} keywords, read from the lexer\'s switch by tools/gen_keywords.py')
print(f'//@ pred kwOf(s Str) := {expr}')
print('//@ func (*Lexer).getNextToken [C15]')
print('//@   atcall get_position#2 kwcase: current_state == SIDENTIFIER ==> token.TokenType == kwOf(slower(addr(buf).content)) [C15]')
