#!/usr/bin/env python3
# Generates the parser part of libvore/ast/zz_contracts_verif.go (thin safety/progress contracts
# of the recursive-descent parser: C08, and the base of C15). Kept as a generator because the 40
# parse_* functions share one protocol; the output is committed to /repo.
P = "tokWf(tokens) && 0 <= {i} && {i} < len(tokens)"
out = []
w = out.append
w("// ---- recursive-descent parser (parser.go): total, in-bounds, progress, no holes ----")
w("// tokWf: the token slice produced by the lexer: non-nil tokens, exactly one EOF, at the end.")
w("//@ pred tokWf(tokens []*Token) := len(tokens) >= 1 && (forall k :: { tokens[k] } 0 <= k && k < len(tokens) ==> tokens[k] != nil)")
w("//@    && (forall k :: { tokens[k] } 0 <= k && k < len(tokens) ==> ((tokens[k].TokenType == EOF) == (k == len(tokens) - 1)))")
w("//@ pred ign(t Int) := t == WS || t == COMMENT")
w("//@ pred okIdx(tokens []*Token, i Int, r Int) := i < r && r < len(tokens)")
w("// firstSig(ts, i): the first index >= i whose token is neither whitespace nor comment (it exists")
w("// because the final EOF token is significant); defined by description, consumeIgnoreableTokens is proved to compute it.")
w("//@ specfunc firstSig([]*Token, Int) Int")
w("//@ axiom firstSig_def: forall ts []*Token, i Int :: { firstSig(ts, i) } tokWf(ts) && 0 <= i && i < len(ts) ==>")
w("//@    i <= firstSig(ts, i) && firstSig(ts, i) < len(ts) && !ign(ts[firstSig(ts, i)].TokenType) && (forall k :: { ts[k] } i <= k && k < firstSig(ts, i) ==> ign(ts[k].TokenType))")
w("")
w("//@ func consumeIgnoreableTokens [C08 C15]")
w("//@   noframe")
w("//@   requires " + P.format(i="index"))
w("//@   ensures range: index <= result && result < len(tokens)")
w("//@   ensures significant: !ign(tokens[result].TokenType)")
w("//@   ensures skipped: forall k :: { tokens[k] } index <= k && k < result ==> ign(tokens[k].TokenType)")
w("//@   ensures first: result == firstSig(tokens, index)")
w("//@   loop 1 invariant index <= current_index && current_index < len(tokens)")
w("//@   loop 1 invariant forall k :: { tokens[k] } index <= k && k < current_index ==> ign(tokens[k].TokenType)")
w("//@   loop 1 decreases len(tokens) - current_index")
w("")
# (name, index param, kind of result0: 'ptr'|'iface'|None, needs first token non-EOF, extra requires, loops)
funcs = [
 ("parse_command","token_index","iface-or-eof",False,None),
 ("parse_find","token_index","ptr",True,None),
 ("parse_replace","token_index","ptr",True,None),
 ("parse_set","token_index","ptr",True,None),
 ("parse_set_transform","token_index","iface",True,None),
 ("parse_set_pattern","token_index","iface",True,None),
 ("parse_set_matches","token_index","iface",True,None),
 ("parse_expression","token_index","iface",False,None),
 ("parse_at","token_index","ptr",True,None),
 ("parse_between","token_index","ptr",True,None),
 ("parse_exactly","token_index","ptr",True,None),
 ("parse_maybe","token_index","ptr",True,None),
 ("parse_not_expression","token_index","iface",True,None),
 ("parse_not_literal","token_index","iface",True,None),
 ("parse_in","token_index","ptr",True,None),
 ("parse_listable","token_index","iface",False,None),
 ("parse_literal","token_index","iface",False,None),
 ("parse_primary_or_dec","token_index","iface",False,None),
 ("parse_primary_or_or","token_index","iface",False,None),
 ("parse_atom","token_index","iface",False,None),
 ("parse_caseless","token_index","ptr",True,None),
 ("parse_string","token_index","ptr",False,None),
 ("parse_variable","token_index","ptr",False,None),
 ("parse_sub_expression","token_index","ptr",True,None),
 ("parse_subroutine","token_index","ptr",True,None),
 ("parse_character_class","token_index","ptr",False,None),
 ("parse_process_set","index","iface",True,None),
 ("parse_process_if","index","iface",True,None),
 ("parse_process_return","index","iface",True,None),
 ("parse_process_debug","index","iface",True,None),
 ("parse_process_loop","index","iface",True,None),
 ("parse_process_expression","index","iface",False,None),
]
loops = {
 "parse_find": ["0 <= current_index && current_index < len(tokens) && current_token == tokens[current_index] && token_index < current_index"],
 "parse_replace": ["0 <= current_index && current_index < len(tokens) && current_token == tokens[current_index] && token_index < current_index",
                   "0 <= current_index && current_index < len(tokens) && token_index < current_index && current_token != nil"],
 "parse_set_pattern": ["0 <= current_index && current_index < len(tokens) && token_index < current_index"],
 "parse_in": ["0 <= current_index && current_index < len(tokens) && current_token == tokens[current_index] && token_index < current_index"],
 "parse_sub_expression": ["0 <= current_index && current_index < len(tokens) && current_token == tokens[current_index] && token_index < current_index"],
 "parse_subroutine": ["0 <= current_index && current_index < len(tokens) && current_token == tokens[current_index] && token_index < current_index"],
}
c15inv = {
 "parse_find": [(1, "!ign(current_token.TokenType)")],
 "parse_replace": [(1, "!ign(current_token.TokenType)"), (2, "!ign(current_token.TokenType)")],
 "parse_set_pattern": [(1, "!ign(tokens[current_index].TokenType)")],
 "parse_in": [(1, "!ign(current_token.TokenType)")],
 "parse_sub_expression": [(1, "!ign(current_token.TokenType)")],
 "parse_subroutine": [(1, "!ign(current_token.TokenType)")],
}
# C04: the command node carries the amount clause exactly as parse_amount read it. amtAll/Skip/Take/Last
# NAME the four results of parse_amount for given arguments (an assumed, definitional postcondition of
# parse_amount, which is a function of the token list: listed with the assumptions).
def amounts(var, n):
    eq = "%s.All == amtAll(tokens, token_index + 1) && %s.Skip == amtSkip(tokens, token_index + 1) && %s.Take == amtTake(tokens, token_index + 1) && %s.Last == amtLast(tokens, token_index + 1)"
    out = ["ensures amounts: result.2 == nil ==> " + (eq % ("result.0","result.0","result.0","result.0")) + " [C04]"]
    for k in range(1, n + 1):
        out.append("loop %d invariant amounts: " % k + (eq % (var, var, var, var)) + " [C04]")
    return out
c04extra = {"parse_find": amounts("findCommand", 1), "parse_replace": amounts("replaceCommand", 2)}
# C01, leaves of the parser: the node carries the token's own text, the negation flag it was called with,
# and the character class the words name (`line start`, `whole word`, ...)
c04extra["parse_string"] = ["ensures leaf: result.2 == nil ==> result.0.Value == tokens[token_index].Lexeme && result.0.Not == not && !result.0.Caseless && result.1 == token_index + 1 [C01]"]
c04extra["parse_caseless"] = ["ensures leaf: result.2 == nil ==> result.0.Value == tokens[firstSig(tokens, token_index + 1)].Lexeme && !result.0.Not && result.0.Caseless && result.1 == firstSig(tokens, token_index + 1) + 1 [C01]"]
c04extra["parse_character_class"] = [
    "let ta := tokens[token_index].TokenType",
    "let b := firstSig(tokens, token_index + 1)",
    "let tb := tokens[b].TokenType",
    "ensures flag: result.2 == nil ==> result.0.Not == not [C01]",
    "ensures one: (ta == ANY || ta == WHITESPACE || ta == DIGIT || ta == UPPER || ta == LOWER || ta == LETTER) ==> result.2 == nil && result.1 == token_index + 1 && result.0.ClassType == (ta == ANY ? ClassAny : (ta == WHITESPACE ? ClassWhitespace : (ta == DIGIT ? ClassDigit : (ta == UPPER ? ClassUpper : (ta == LOWER ? ClassLower : ClassLetter))))) [C01]",
    "ensures line: ta == LINE && (tb == START || tb == END) ==> result.2 == nil && result.1 == b + 1 && result.0.ClassType == (tb == START ? ClassLineStart : ClassLineEnd) [C01]",
    "ensures file: ta == FILE && (tb == START || tb == END) ==> result.2 == nil && result.1 == b + 1 && result.0.ClassType == (tb == START ? ClassFileStart : ClassFileEnd) [C01]",
    "ensures word: ta == WORD && (tb == START || tb == END) ==> result.2 == nil && result.1 == b + 1 && result.0.ClassType == (tb == START ? ClassWordStart : ClassWordEnd) [C01]",
    "ensures whole: ta == WHOLE && (tb == LINE || tb == FILE || tb == WORD) ==> result.2 == nil && result.1 == b + 1 && result.0.ClassType == (tb == LINE ? ClassWholeLine : (tb == FILE ? ClassWholeFile : ClassWholeWord)) [C01]",
    "ensures other: !(ta == ANY || ta == WHITESPACE || ta == DIGIT || ta == UPPER || ta == LOWER || ta == LETTER || ((ta == LINE || ta == FILE || ta == WORD) && (tb == START || tb == END)) || (ta == WHOLE && (tb == LINE || tb == FILE || tb == WORD))) ==> result.2 != nil [C01]",
]
w("//@ specfunc amtAll(Slice, Int) Bool")
w("//@ specfunc amtSkip(Slice, Int) Int")
w("//@ specfunc amtTake(Slice, Int) Int")
w("//@ specfunc amtLast(Slice, Int) Int")
for name, ip, kind, nonEof, extra in funcs:
    w("//@ func %s [C08 C15]" % name)
    w("//@   noframe")
    w("//@   sigreads [C15]")
    w("//@   requires sig: !ign(tokens[%s].TokenType) [C15]" % ip)
    req = P.format(i=ip)
    if nonEof:
        req += " && tokens[%s].TokenType != EOF" % ip
    w("//@   requires " + req)
    if kind == "ptr":
        w("//@   ensures nohole: result.2 == nil ==> result.0 != nil")
        w("//@   ensures index: result.2 == nil ==> okIdx(tokens, %s, result.1)" % ip)
    elif kind == "iface":
        w("//@   ensures nohole: result.2 == nil ==> wfbox(result.0)")
        w("//@   ensures index: result.2 == nil ==> okIdx(tokens, %s, result.1)" % ip)
    elif kind == "iface-or-eof":
        w("//@   ensures nohole: result.2 == nil && tokens[%s].TokenType != EOF ==> wfbox(result.0)" % ip)
        w("//@   ensures index: result.2 == nil && tokens[%s].TokenType != EOF ==> okIdx(tokens, %s, result.1)" % (ip, ip))
        w("//@   ensures eof: tokens[%s].TokenType == EOF ==> result.1 == %s && result.0 == nil" % (ip, ip))
    w("//@   ensures either: result.2 != nil || result.1 < len(tokens)")
    for k, inv in enumerate(loops.get(name, [])):
        w("//@   loop %d invariant %s" % (k+1, inv))
    for n, inv in c15inv.get(name, []):
        w("//@   loop %d invariant sig: %s [C15]" % (n, inv))
    for line in c04extra.get(name, []):
        w("//@   " + line)
    w("")
w("//@ func parse_amount [C08 C04 C15]")
w("//@   noframe")
w("//@   sigreads [C15]")
w("//@   requires " + P.format(i="token_index"))
w("//@   ensures index: result.5 == nil ==> token_index <= result.4 && result.4 < len(tokens) && okIdx(tokens, token_index, result.4)")
w("// the amount clause, from the property statement C04: all | skip s | skip s take t | take n | top n | last n")
w("//@   let a := firstSig(tokens, token_index)")
w("//@   let ta := tokens[a].TokenType")
w("//@   let b := firstSig(tokens, a + 1)")
w("//@   let nb := tokens[b].TokenType == NUMBER && atoiok(tokens[b].Lexeme)")
w("//@   let vb := atoi(tokens[b].Lexeme)")
w("//@   let c := firstSig(tokens, b + 1)")
w("//@   let d := firstSig(tokens, c + 1)")
w("//@   let nd := tokens[d].TokenType == NUMBER && atoiok(tokens[d].Lexeme)")
w("//@   let vd := atoi(tokens[d].Lexeme)")
w("//@   ensures all: ta == ALL ==> result.5 == nil && result.0 && result.1 == 0 && result.2 == 0 && result.3 == 0 && result.4 == a + 1 [C04]")
w("//@   ensures skip: ta == SKIP && nb && tokens[c].TokenType != TAKE ==> result.5 == nil && result.0 && result.1 == vb && result.2 == 0 && result.3 == 0 && result.4 == c [C04]")
w("//@   ensures skiptake: ta == SKIP && nb && tokens[c].TokenType == TAKE && nd ==> result.5 == nil && !result.0 && result.1 == vb && result.2 == vd && result.3 == 0 && result.4 == d + 1 [C04]")
w("//@   ensures take: (ta == TAKE || ta == TOP) && nb ==> result.5 == nil && !result.0 && result.1 == 0 && result.2 == vb && result.3 == 0 && result.4 == b + 1 [C04]")
w("//@   ensures last: ta == LAST && nb ==> result.5 == nil && result.0 && result.1 == 0 && result.2 == 0 && result.3 == vb && result.4 == b + 1 [C04]")
w("//@   ensures other: !(ta == ALL || ta == SKIP || ta == TAKE || ta == TOP || ta == LAST) ==> result.5 != nil [C04]")
w("//@   assumes named: result.0 == amtAll(tokens, token_index) && result.1 == amtSkip(tokens, token_index) && result.2 == amtTake(tokens, token_index) && result.3 == amtLast(tokens, token_index) [C04]")
w("")
w("//@ func parse_process_statements [C08 C15]")
w("//@   noframe")
w("//@   sigreads [C15]")
w("//@   requires " + P.format(i="index"))
w("//@   ensures index: result.2 == nil ==> index <= result.1 && result.1 < len(tokens)")
w("//@   ensures sig: result.2 == nil ==> !ign(tokens[result.1].TokenType) [C15]")
w("//@   loop 1 invariant index <= token_index && token_index < len(tokens)")
w("")
w("//@ func parse_process_statement [C08 C15]")
w("//@   noframe")
w("//@   sigreads [C15]")
w("//@   requires sig: !ign(tokens[index].TokenType) [C15]")
w("//@   requires " + P.format(i="index"))
w("//@   ensures nohole: result.2 == nil && result.0 != nil ==> wfbox(result.0) && okIdx(tokens, index, result.1)")
w("//@   ensures stop: result.2 == nil && result.0 == nil ==> result.1 == index && (tokens[index].TokenType == END || tokens[index].TokenType == ELSE)")
w("")
w("//@ pred procEnd(t Int) := t == SET || t == THEN || t == IF || t == ELSE || t == END || t == DEBUG || t == RETURN || t == LOOP || t == BREAK || t == CONTINUE")
w("//@ func isProcessExprEnd [C08 C15]")
w("//@   ensures table: result == procEnd(tokenType)")
w("")
w("//@ func getProcessExpressionTokens [C08 C15]")
w("//@   noframe")
w("//@   requires " + P.format(i="index"))
w("//@   ensures index: index <= result.1 && result.1 < len(tokens)")
w("//@   ensures nonnil: forall k :: { result.0[k] } 0 <= k && k < len(result.0) ==> result.0[k] != nil")
w("//@   ensures nonempty: len(result.0) > 0 ==> result.1 > index")
w("//@   ensures filtered: forall k :: { result.0[k] } 0 <= k && k < len(result.0) ==> !ign(result.0[k].TokenType) [C15]")
w("//@   ensures stop: procEnd(tokens[result.1].TokenType) || tokens[result.1].TokenType == EOF [C15]")
w("//@   loop 1 invariant index <= token_index && token_index < len(tokens) && tokWf(tokens) && fresh(exprTokens) && (len(exprTokens) > 0 ==> token_index > index)")
w("//@   loop 1 invariant forall k :: { exprTokens[k] } 0 <= k && k < len(exprTokens) ==> exprTokens[k] != nil")
w("//@   loop 1 invariant filtered: forall k :: { exprTokens[k] } 0 <= k && k < len(exprTokens) ==> !ign(exprTokens[k].TokenType) [C15]")
w("//@   loop 1 decreases len(tokens) - token_index")
w("")
w("//@ func parse_expr_pratt [C08 C11 C15]")
w("//@   noframe")
w("//@   sigreads [C15]")
w("//@   requires sig: forall k :: { tokens[k] } 0 <= k && k < len(tokens) ==> !ign(tokens[k].TokenType) [C15]")
w("//@   requires (forall k :: { tokens[k] } 0 <= k && k < len(tokens) ==> tokens[k] != nil) && len(tokens) >= 1 && 0 <= index && index <= len(tokens)")
w("//@   ensures nohole: result.2 == nil ==> wfbox(result.0)")
w("//@   ensures index: result.2 == nil ==> index < result.1 && result.1 <= len(tokens)")
w("//@   loop 1 invariant index < token_index && token_index <= len(tokens) && wfbox(lhs)")
# C11, left association: an infix operator is admitted only if its left power reaches the caller's minimum,
# and its right operand is parsed with a minimum above that left power (an operator of the same level ends it)
w("//@   atcall parse_expr_pratt rightoperand: defined(lprec) ==> lbp(tokens[token_index].TokenType) >= minPrecedence && arg2 > lbp(tokens[token_index].TokenType) && arg1 == token_index + 1 [C11]")
w("")
w("//@ func parse [C08 C15 C13]")
w("//@   noframe")
w("//@   sigreads [C15]")
w("//@   requires tokWf(tokens)")
w("//@   ensures nohole: result.1 == nil ==> forall k :: { result.0[k] } 0 <= k && k < len(result.0) ==> wfbox(result.0[k])")
w("//@   loop 1 invariant 0 <= token_index && token_index < len(tokens)")
w("//@   loop 1 invariant forall k :: { commands[k] } 0 <= k && k < len(commands) ==> wfbox(commands[k])")
w("//@   loop 1 decreases len(tokens) - token_index")
# C13: the numbering of regex groups starts at zero for every source, whatever was compiled before
# (the counter is a package-level variable, see D23): the first command is parsed with the counter at zero
w("//@   loop 1 invariant numbering: token_index == 0 ==> capture_group_number == 0 [C13]")
print("\n".join(out))

# ---- regex literal sub-parser (parser_regexp.go) ----
o = []
w = o.append
w("")
w("// ---- regex literal sub-parser (parser_regexp.go): total on every pattern text ----")
w("//@ func parse_regexp [C08 C14]")
w("//@   noframe")
w("//@   requires tokWf(tokens) && 0 <= token_index && token_index < len(tokens) && tokens[token_index].TokenType != EOF")
w("//@   ensures nohole: result.2 == nil ==> wfbox(result.0)")
w("//@   ensures index: result.2 == nil ==> okIdx(tokens, token_index, result.1)")
w("//@   ensures either: result.2 != nil || result.1 < len(tokens)")
R = "regexp_token != nil && 0 <= index && index <= len(regexp)"
RS = "regexp_token != nil && 0 <= index && index < len(regexp)"
rx = [
 ("parse_regexp_disjunction", R, "slice", False, ["index <= current_index && current_index <= len(regexp)", "forall k :: { results[k] } 0 <= k && k < len(results) ==> wfbox(results[k])"], "len(regexp) - current_index"),
 ("parse_regexp_pattern", R, "iface", True, [], None),
 ("parse_regexp_literal", R, "iface", True, [], None),
 ("parse_regexp_character_class", R, "iface", True, ["index <= next_index && next_index <= len(regexp)", "forall k :: { results[k] } 0 <= k && k < len(results) ==> wfbox(results[k])"], "len(regexp) - next_index"),
 ("parse_regexp_class_ranges", RS + " && sat(regexp, index) != ']'", "iface", True, [], None),
 ("parse_regexp_class_atom_escape", RS, "iface", True, [], None),
 ("parse_regexp_escape_characters", R, "iface", True, ["index <= current_index && current_index <= len(regexp)"], "len(regexp) - current_index"),
 ("parse_regexp_groups", R, "iface", True, ["index <= current_index && current_index <= len(regexp)"], "len(regexp) - current_index"),
]
for name, req, kind, progress, invs, dec in rx:
    w("//@ func %s [C08 C14]" % name)
    w("//@   noframe")
    w("//@   requires " + req)
    if kind == "iface":
        w("//@   ensures nohole: result.2 == nil ==> wfbox(result.0)")
    elif kind == "slice":
        w("//@   ensures nohole: result.2 == nil ==> forall k :: { result.0[k] } 0 <= k && k < len(result.0) ==> wfbox(result.0[k])")
    if progress:
        w("//@   ensures index: result.2 == nil ==> index < result.1 && result.1 <= len(regexp)")
    else:
        w("//@   ensures index: result.2 == nil ==> index <= result.1 && result.1 <= len(regexp)")
    for k, inv in enumerate(invs):
        w("//@   loop 1 invariant %s" % inv)
    if dec:
        w("//@   loop 1 decreases %s" % dec)
    w("")
w("//@ func parse_regexp_class_atom_string [C08 C14]")
w("//@   noframe")
w("//@   requires " + R)
w("//@   ensures atom: result.2 == nil && index < len(regexp) && sat(regexp, index) != ']' ==> result.0 != nil")
w("//@   ensures range: result.2 == nil ==> index < len(regexp) && result.1 <= len(regexp)")
w("//@   ensures some: result.2 == nil && result.0 != nil ==> result.1 == index + 1")
w("//@   ensures none: result.2 == nil && result.0 == nil ==> result.1 == index && sat(regexp, index) == ']'")
w("")
w("//@ func parse_regexp_number [C08 C14]")
w("//@   noframe")
w("//@   requires " + R)
w("//@   ensures index: result.2 == nil ==> index < result.1 && result.1 <= len(regexp)")
w("//@   loop 1 invariant index <= idx && idx <= len(regexp) && ((idx > index) == (len(result) > 0))")
w("//@   loop 1 decreases len(regexp) - idx")
w("")
w("//@ func parse_regexp_quantifier [C08 C14]")
w("//@   noframe")
w("//@   requires " + R)
w("//@   ensures index: result.2 == nil ==> index <= result.1 && result.1 <= len(regexp)")
w("//@   ensures none: result.2 == nil && result.0 == nil ==> result.1 == index")
print("\n".join(o))
