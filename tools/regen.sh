#!/bin/sh
# regenerates the generated parts of the contract files in /repo (parser, engine primitives)
set -e
R=${1:-/repo}
export R
python3 /verif/tools/gen_parser_contracts.py > /tmp/parser_contracts.txt
(printf '//go:build verif\n\npackage ast\n\n// Contracts for package ast, read by /verif/govc (comment-only file, build tag verif).\n// The parser part is produced by /verif/tools/gen_parser_contracts.py.\n\n'; cat /tmp/parser_contracts.txt; if [ -f /verif/tools/ast_extra.txt ]; then cat /verif/tools/ast_extra.txt; fi; python3 /verif/tools/gen_keywords.py) > $R/libvore/ast/zz_contracts_verif.go
python3 /verif/tools/gen_engine_contracts.py > /tmp/engine_prims.txt
python3 - <<'PY'
import os
p=os.environ['R']+'/libvore/engine/zz_contracts_verif.go'
s=open(p).read()
marker='// ---- VM primitives:'
tail_marker='// ---- statements of the process language'
tail=s[s.index(tail_marker):]
s=s[:s.index(marker)].rstrip('\n')+'\n\n'+open('/tmp/engine_prims.txt').read()+'\n'+tail
open(p,'w').write(s)
PY
rm -f /tmp/parser_contracts.txt /tmp/engine_prims.txt
