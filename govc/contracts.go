package main

import (
	"fmt"
	"os"
	"regexp"
	"strconv"
	"strings"
)

type Clause struct {
	E     SExpr
	Src   string
	Props []string
	Label string
	Where string // file:line
}

type FuncContract struct {
	Key          string
	Props        []string
	Requires     []Clause
	Ensures      []Clause
	Assumes      []Clause // postconditions assumed at call sites and NOT proved (listed as assumptions)
	Presumes     []Clause // preconditions assumed in the body and NOT checked at call sites (listed as assumptions)
	Lets         []LetBinding
	Modifies     []SExpr
	ModAll       bool
	ModInferred  bool // modifies inferred: the write effects computed from the code (component granularity)
	LoopInv      map[int][]Clause
	LoopPresume  map[int][]Clause // assumed at the loop header, never checked (listed as assumptions)
	LoopDec      map[int]Clause
	LoopMod      map[int][]SExpr
	LoopGhost    map[int][]GhostVar // loop-carried ghost variables (name, sort, initial value, update at the back edge)
	Asserts      []Clause
	Trusted      bool // contract assumed, body not verified (externals)
	Inline       bool // always inline at call sites, contract (if any) ignored by callers
	NoReturn     bool
	NoPanicProps []string
	NoFrame      bool
	AtCall       map[string][]Clause // assertions checked at the call sites of the named callee
	Effects      []EffectClause      // static write-effect obligations (C19)
	DeadReturns  map[int]bool        // return sites declared unreachable under the preconditions
	SigReadProps []string
	Where        string
	Bounded      string
}

type LetBinding struct {
	Name string
	E    SExpr
}

type PredDef struct {
	Name   string
	Params []SBinder
	Body   SExpr
	Pkg    string
}

type SpecFunc struct {
	Name   string
	Params []string // sorts / type names
	Ret    string
	Pkg    string
}

type Axiom struct {
	Name  string
	E     SExpr
	Pkg   string
	Lemma bool
	Props []string
	Where string
}

type GhostDecl struct {
	Type string // e.g. *BufferedFile
	Name string
	Sort string
	Pkg  string
}

type Contracts struct {
	Funcs        map[string]*FuncContract
	Preds        map[string]*PredDef
	Specs        map[string]*SpecFunc
	Axioms       []*Axiom
	Ghosts       []*GhostDecl
	Consts       map[string]SExpr
	GhostGlobals map[string]string
	Files        []string
	Scan         []string // mechanical scan results: trusted / axiom / assume lines
}

func newContracts() *Contracts {
	return &Contracts{Funcs: map[string]*FuncContract{}, Preds: map[string]*PredDef{}, Specs: map[string]*SpecFunc{}, Consts: map[string]SExpr{}, GhostGlobals: map[string]string{}}
}

var propTag = regexp.MustCompile(`\s*\[((?:C\d+\s*)+)\]\s*$`)
var labelRe = regexp.MustCompile(`^([a-zA-Z_][a-zA-Z0-9_.\-]*):\s+`)

var clauseKeywords = map[string]bool{"func": true, "pred": true, "specfunc": true, "axiom": true, "lemma": true, "ghost": true,
	"requires": true, "ensures": true, "assumes": true, "presumes": true, "modifies": true, "let": true, "loop": true, "trusted": true, "inline": true,
	"noreturn": true, "assert": true, "bounded": true, "nopanic": true, "noframe": true, "sigreads": true, "deadreturn": true, "effects": true, "atcall": true}

// loadContractFile parses one contract file. pkg is the package name used to qualify
// unqualified function keys ("" for spec files whose keys are fully qualified).
func (cs *Contracts) loadContractFile(path, pkg string) error {
	data, err := os.ReadFile(path)
	if err != nil {
		return err
	}
	cs.Files = append(cs.Files, path)
	return cs.loadContractText(path, pkg, string(data))
}

func (cs *Contracts) loadContractText(path, pkg, text string) error {
	data := text
	// collect logical lines
	type lline struct {
		text string
		line int
	}
	var lls []lline
	for i, raw := range strings.Split(string(data), "\n") {
		t := strings.TrimSpace(raw)
		if !strings.HasPrefix(t, "//@") {
			if strings.HasPrefix(t, "package ") && pkg == "" {
				// spec files may declare a default package
			}
			continue
		}
		t = strings.TrimSpace(t[3:])
		if t == "" || strings.HasPrefix(t, "#") {
			continue
		}
		first := t
		if j := strings.IndexAny(t, " \t"); j >= 0 {
			first = t[:j]
		}
		if clauseKeywords[first] {
			lls = append(lls, lline{t, i + 1})
		} else if len(lls) > 0 {
			lls[len(lls)-1].text += " " + t
		} else {
			return fmt.Errorf("%s:%d: continuation without clause", path, i+1)
		}
	}
	var cur *FuncContract
	for _, ll := range lls {
		where := fmt.Sprintf("%s:%d", path, ll.line)
		t := ll.text
		var props []string
		if m := propTag.FindStringSubmatch(t); m != nil {
			props = strings.Fields(m[1])
			t = strings.TrimSpace(t[:len(t)-len(m[0])])
		}
		kw, rest := t, ""
		if j := strings.IndexAny(t, " \t"); j >= 0 {
			kw, rest = t[:j], strings.TrimSpace(t[j+1:])
		}
		fail := func(err error) error { return fmt.Errorf("%s: %v", where, err) }
		parse := func(src string) (Clause, error) {
			label := ""
			if m := labelRe.FindStringSubmatch(src); m != nil && !strings.HasPrefix(src[len(m[0])-1:], " :") {
				label = m[1]
				src = src[len(m[0]):]
			}
			e, err := parseSpecExpr(src)
			if err != nil {
				return Clause{}, err
			}
			return Clause{E: e, Src: src, Props: props, Label: label, Where: where}, nil
		}
		switch kw {
		case "func":
			key := rest
			if pkg != "" && !strings.Contains(strings.TrimLeft(key, "(*"), ".") || (pkg != "" && strings.HasPrefix(key, "(")) {
				key = pkg + "." + key
			}
			if old, ok := cs.Funcs[key]; ok {
				cur = old
				cur.Props = append(cur.Props, props...)
			} else {
				cur = &FuncContract{Key: key, Props: props, LoopInv: map[int][]Clause{}, LoopPresume: map[int][]Clause{}, LoopDec: map[int]Clause{}, LoopMod: map[int][]SExpr{}, Where: where}
				cs.Funcs[key] = cur
			}
		case "requires", "ensures", "assert", "assumes", "presumes":
			if cur == nil {
				return fail(fmt.Errorf("clause outside func"))
			}
			c, err := parse(rest)
			if err != nil {
				return fail(err)
			}
			switch kw {
			case "requires":
				cur.Requires = append(cur.Requires, c)
			case "ensures":
				cur.Ensures = append(cur.Ensures, c)
			case "presumes":
				cur.Presumes = append(cur.Presumes, c)
				cs.Scan = append(cs.Scan, "presumed precondition (assumed, not checked at call sites) of "+cur.Key+": "+c.Src+" @ "+where)
			case "assumes":
				cur.Assumes = append(cur.Assumes, c)
				cs.Scan = append(cs.Scan, "assumed postcondition (not proved) of "+cur.Key+": "+c.Src+" @ "+where)
			case "assert":
				cur.Asserts = append(cur.Asserts, c)
			}
		case "modifies":
			if cur == nil {
				return fail(fmt.Errorf("clause outside func"))
			}
			if rest == "nothing" {
				break
			}
			if rest == "*" {
				cur.ModAll = true
				break
			}
			if rest == "inferred" {
				cur.ModInferred = true
				break
			}
			for _, part := range splitCommaTop(rest) {
				e, err := parseSpecExpr(part)
				if err != nil {
					return fail(err)
				}
				cur.Modifies = append(cur.Modifies, e)
			}
		case "let":
			if cur == nil {
				return fail(fmt.Errorf("clause outside func"))
			}
			j := strings.Index(rest, ":=")
			if j < 0 {
				return fail(fmt.Errorf("let needs :="))
			}
			e, err := parseSpecExpr(rest[j+2:])
			if err != nil {
				return fail(err)
			}
			cur.Lets = append(cur.Lets, LetBinding{strings.TrimSpace(rest[:j]), e})
		case "loop":
			if cur == nil {
				return fail(fmt.Errorf("clause outside func"))
			}
			f := strings.Fields(rest)
			if len(f) < 3 {
				return fail(fmt.Errorf("loop <n> invariant|decreases|modifies <expr>"))
			}
			n, err := strconv.Atoi(f[0])
			if err != nil {
				return fail(err)
			}
			body := strings.TrimSpace(strings.TrimPrefix(strings.TrimSpace(strings.TrimPrefix(rest, f[0])), f[1]))
			switch f[1] {
			case "invariant":
				c, err := parse(body)
				if err != nil {
					return fail(err)
				}
				cur.LoopInv[n] = append(cur.LoopInv[n], c)
			case "presumes":
				c, err := parse(body)
				if err != nil {
					return fail(err)
				}
				cur.LoopPresume[n] = append(cur.LoopPresume[n], c)
				cs.Scan = append(cs.Scan, fmt.Sprintf("presumed loop fact (assumed, not checked) in %s loop %d: %s @ %s", cur.Key, n, c.Src, where))
			case "decreases":
				c, err := parse(body)
				if err != nil {
					return fail(err)
				}
				cur.LoopDec[n] = c
			case "modifies":
				for _, part := range splitCommaTop(body) {
					e, err := parseSpecExpr(part)
					if err != nil {
						return fail(err)
					}
					cur.LoopMod[n] = append(cur.LoopMod[n], e)
				}
			case "ghost":
				// loop <n> ghost <name> <sort> := <init> ;; <next>
				j := strings.Index(body, ":=")
				k := strings.Index(body, ";;")
				if j < 0 || k < j {
					return fail(fmt.Errorf("loop <n> ghost <name> <sort> := <init> ;; <next>"))
				}
				hd := strings.TrimSpace(body[:j])
				sp := strings.IndexAny(hd, " \t")
				if sp < 0 {
					return fail(fmt.Errorf("ghost needs a name and a sort"))
				}
				ie, err := parseSpecExpr(body[j+2 : k])
				if err != nil {
					return fail(err)
				}
				ne, err := parseSpecExpr(body[k+2:])
				if err != nil {
					return fail(err)
				}
				if cur.LoopGhost == nil {
					cur.LoopGhost = map[int][]GhostVar{}
				}
				cur.LoopGhost[n] = append(cur.LoopGhost[n], GhostVar{Name: hd[:sp], Sort: strings.TrimSpace(hd[sp:]), Init: ie, Next: ne, Where: where})
			default:
				return fail(fmt.Errorf("unknown loop clause %s", f[1]))
			}
		case "trusted":
			if cur == nil {
				return fail(fmt.Errorf("clause outside func"))
			}
			cur.Trusted = true
			cs.Scan = append(cs.Scan, "trusted contract (assumed, body not verified): "+cur.Key+" @ "+where)
		case "inline":
			if cur == nil {
				return fail(fmt.Errorf("clause outside func"))
			}
			cur.Inline = true
		case "noframe":
			cur.NoFrame = true
		case "sigreads":
			cur.SigReadProps = props
		case "atcall":
			// atcall <callee name> <expr>
			j := strings.IndexAny(rest, " \t")
			if j < 0 {
				return fail(fmt.Errorf("atcall <callee> <expr>"))
			}
			c, err := parse(strings.TrimSpace(rest[j+1:]))
			if err != nil {
				return fail(err)
			}
			if cur.AtCall == nil {
				cur.AtCall = map[string][]Clause{}
			}
			cur.AtCall[rest[:j]] = append(cur.AtCall[rest[:j]], c)
		case "effects":
			f := strings.Fields(rest)
			if len(f) == 0 {
				return fail(fmt.Errorf("effects noglobals | nowrite <pkg>..."))
			}
			cur.Effects = append(cur.Effects, EffectClause{Kind: f[0], Args: f[1:], Props: props, Where: where})
		case "deadreturn":
			if cur.DeadReturns == nil {
				cur.DeadReturns = map[int]bool{}
			}
			for _, f := range strings.Fields(rest) {
				if n, err := strconv.Atoi(f); err == nil {
					cur.DeadReturns[n] = true
				}
			}
		case "noreturn":
			cur.NoReturn = true
		case "nopanic":
			// nopanic          run-time panics are obligations of every property of the function (the default)
			// nopanic [Cxx]    ... of the listed properties only
			// nopanic none     ... of no property (panics are legitimate or unclaimed here)
			cur.NoPanicProps = props
			if strings.TrimSpace(rest) == "none" {
				cur.NoPanicProps = []string{}
			}
		case "bounded":
			cur.Bounded = rest
		case "pred":
			// pred name(x T, y U) := body
			j := strings.Index(rest, ":=")
			if j < 0 {
				return fail(fmt.Errorf("pred needs :="))
			}
			head := strings.TrimSpace(rest[:j])
			k := strings.Index(head, "(")
			if k < 0 || !strings.HasSuffix(head, ")") {
				return fail(fmt.Errorf("bad pred head"))
			}
			pd := &PredDef{Name: head[:k], Pkg: pkg}
			for _, prm := range splitCommaTop(head[k+1 : len(head)-1]) {
				f := strings.Fields(prm)
				if len(f) == 1 {
					pd.Params = append(pd.Params, SBinder{f[0], "Int"})
				} else if len(f) >= 2 {
					pd.Params = append(pd.Params, SBinder{f[0], strings.Join(f[1:], " ")})
				}
			}
			e, err := parseSpecExpr(rest[j+2:])
			if err != nil {
				return fail(err)
			}
			pd.Body = e
			cs.Preds[pd.Name] = pd
			cur = nil
		case "specfunc":
			// specfunc name(T, U) R
			k := strings.Index(rest, "(")
			k2 := strings.LastIndex(rest, ")")
			if k < 0 || k2 < k {
				return fail(fmt.Errorf("bad specfunc"))
			}
			sf := &SpecFunc{Name: strings.TrimSpace(rest[:k]), Ret: strings.TrimSpace(rest[k2+1:]), Pkg: pkg}
			for _, prm := range splitCommaTop(rest[k+1 : k2]) {
				if strings.TrimSpace(prm) != "" {
					sf.Params = append(sf.Params, strings.TrimSpace(prm))
				}
			}
			cs.Specs[sf.Name] = sf
			cur = nil
		case "axiom", "lemma":
			j := strings.Index(rest, ":")
			if j < 0 {
				return fail(fmt.Errorf("axiom needs name:"))
			}
			e, err := parseSpecExpr(rest[j+1:])
			if err != nil {
				return fail(err)
			}
			ax := &Axiom{Name: strings.TrimSpace(rest[:j]), E: e, Pkg: pkg, Lemma: kw == "lemma", Props: props, Where: where}
			cs.Axioms = append(cs.Axioms, ax)
			if kw == "axiom" {
				cs.Scan = append(cs.Scan, "axiom (assumed): "+ax.Name+" @ "+where)
			}
			cur = nil
		case "ghost":
			// ghost field (*T) name Sort
			f := strings.Fields(rest)
			if len(f) >= 3 && f[0] == "global" {
				cs.GhostGlobals[f[1]] = strings.Join(f[2:], " ")
				cur = nil
				break
			}
			if len(f) != 4 || f[0] != "field" {
				return fail(fmt.Errorf("ghost field (*T) name Sort"))
			}
			cs.Ghosts = append(cs.Ghosts, &GhostDecl{Type: strings.Trim(f[1], "()"), Name: f[2], Sort: f[3], Pkg: pkg})
			cur = nil
		}
	}
	return nil
}

func splitCommaTop(s string) []string {
	var out []string
	d := 0
	start := 0
	for i, c := range s {
		switch c {
		case '(', '[', '{':
			d++
		case ')', ']', '}':
			d--
		case ',':
			if d == 0 {
				out = append(out, strings.TrimSpace(s[start:i]))
				start = i + 1
			}
		}
	}
	if strings.TrimSpace(s[start:]) != "" {
		out = append(out, strings.TrimSpace(s[start:]))
	}
	return out
}

// GhostVar is a loop-carried ghost variable: a specification-only value that starts at Init when
// the loop is entered and becomes Next at every back edge. It records history (e.g. the sequence
// of intermediate results) so that invariants and postconditions can speak about it.
type GhostVar struct {
	Name, Sort string
	Init, Next SExpr
	Where      string
}

type EffectClause struct {
	Kind  string // noglobals | nowrite
	Args  []string
	Props []string
	Where string
}
