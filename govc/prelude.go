package main

import "strings"

const preludeDecls = `(declare-fun slen (Str) Int)
(declare-fun sat (Str Int) Int)
(declare-fun scat (Str Str) Str)
(declare-fun ssub (Str Int Int) Str)
(declare-const sempty Str)
(declare-fun schr (Int) Str)
(declare-fun sofrune (Int) Str)
(declare-fun sofbytes ((Array Int Int) Int Int) Str)
(declare-fun sle (Str Str) Bool)
(declare-fun seqx (Str Str) Bool)
(declare-fun itoa (Int) Str)
(declare-fun atoi (Str) Int)
(declare-fun atoiok (Str) Bool)
(declare-fun slower (Str) Str)
(declare-fun sfold (Str Str) Bool)
(declare-fun runeat (Str Int) Int)
(declare-fun runew (Str Int) Int)
(declare-fun godiv (Int Int) Int)
(declare-fun gomod (Int Int) Int)
`

// strAxiom: an axiom of the Str theory with the symbols that make it relevant.
type strAxiom struct {
	name string
	syms []string // included when any of these appears in the VC
	text string
}

// The Str theory (DESIGN §2.2). Each axiom is a theorem of byte sequences; the thorough tier
// re-validates them against z3's native (Seq Int).
var strAxioms = []strAxiom{
	{"slen-nonneg", []string{"slen"}, `(forall ((s Str)) (! (>= (slen s) 0) :pattern ((slen s))))`},
	{"sat-byte", []string{"(sat "}, `(forall ((s Str) (i Int)) (! (and (<= 0 (sat s i)) (< (sat s i) 256)) :pattern ((sat s i))))`},
	{"sempty-len", []string{"slen", "sempty"}, `(= (slen sempty) 0)`},
	{"len0-empty", []string{"slen", "sempty"}, `(forall ((s Str)) (! (=> (= (slen s) 0) (= s sempty)) :pattern ((slen s))))`},
	{"scat-len", []string{"scat"}, `(forall ((a Str) (b Str)) (! (= (slen (scat a b)) (+ (slen a) (slen b))) :pattern ((scat a b))))`},
	{"scat-at", []string{"scat"}, `(forall ((a Str) (b Str) (i Int)) (! (=> (and (<= 0 i) (< i (+ (slen a) (slen b)))) (= (sat (scat a b) i) (ite (< i (slen a)) (sat a i) (sat b (- i (slen a)))))) :pattern ((sat (scat a b) i))))`},
	{"scat-empty-r", []string{"scat"}, `(forall ((a Str)) (! (= (scat a sempty) a) :pattern ((scat a sempty))))`},
	{"scat-empty-l", []string{"scat"}, `(forall ((a Str)) (! (= (scat sempty a) a) :pattern ((scat sempty a))))`},
	{"scat-assoc", []string{"scat"}, `(forall ((a Str) (b Str) (c Str)) (! (= (scat (scat a b) c) (scat a (scat b c))) :pattern ((scat (scat a b) c))))`},
	{"ssub-len", []string{"ssub"}, `(forall ((s Str) (a Int) (b Int)) (! (=> (and (<= 0 a) (<= a b) (<= b (slen s))) (= (slen (ssub s a b)) (- b a))) :pattern ((ssub s a b))))`},
	{"ssub-at", []string{"ssub"}, `(forall ((s Str) (a Int) (b Int) (i Int)) (! (=> (and (<= 0 a) (<= a b) (<= b (slen s)) (<= 0 i) (< i (- b a))) (= (sat (ssub s a b) i) (sat s (+ a i)))) :pattern ((sat (ssub s a b) i))))`},
	{"ssub-all", []string{"ssub"}, `(forall ((s Str)) (! (= (ssub s 0 (slen s)) s) :pattern ((ssub s 0 (slen s)))))`},
	{"ssub-nil", []string{"ssub"}, `(forall ((s Str) (a Int)) (! (= (ssub s a a) sempty) :pattern ((ssub s a a))))`},
	{"ssub-cat", []string{"ssub", "scat"}, `(forall ((s Str) (a Int) (b Int) (c Int)) (! (=> (and (<= 0 a) (<= a b) (<= b c) (<= c (slen s))) (= (scat (ssub s a b) (ssub s b c)) (ssub s a c))) :pattern ((scat (ssub s a b) (ssub s b c)))))`},
	{"ssub-ssub", []string{"ssub"}, `(forall ((s Str) (a Int) (b Int) (c Int) (d Int)) (! (=> (and (<= 0 a) (<= a b) (<= b (slen s)) (<= 0 c) (<= c d) (<= d (- b a))) (= (ssub (ssub s a b) c d) (ssub s (+ a c) (+ a d)))) :pattern ((ssub (ssub s a b) c d))))`},
	{"ssub-snoc", []string{"ssub"}, `(forall ((s Str) (a Int) (i Int)) (! (=> (and (<= 0 a) (<= a i) (< i (slen s))) (= (scat (ssub s a i) (schr (sat s i))) (ssub s a (+ i 1)))) :pattern ((scat (ssub s a i) (schr (sat s i))))))`},
	{"ssub-of-cat-l", []string{"ssub", "scat"}, `(forall ((a Str) (b Str)) (! (and (= (ssub (scat a b) 0 (slen a)) a) (= (ssub (scat a b) (slen a) (+ (slen a) (slen b))) b)) :pattern ((scat a b))))`},
	{"schr", []string{"schr"}, `(forall ((c Int)) (! (and (= (slen (schr c)) 1) (=> (and (<= 0 c) (< c 256)) (= (sat (schr c) 0) c))) :pattern ((schr c))))`},
	{"schr-ext", []string{"schr"}, `(forall ((s Str)) (! (=> (= (slen s) 1) (= s (schr (sat s 0)))) :pattern ((slen s))))`},
	{"sofrune-ascii", []string{"sofrune"}, `(forall ((c Int)) (! (and (=> (and (<= 0 c) (< c 128)) (= (sofrune c) (schr c))) (<= 1 (slen (sofrune c))) (<= (slen (sofrune c)) 4)) :pattern ((sofrune c))))`},
	{"sofbytes-len", []string{"sofbytes"}, `(forall ((r (Array Int Int)) (lo Int) (n Int)) (! (=> (<= 0 n) (= (slen (sofbytes r lo n)) n)) :pattern ((sofbytes r lo n))))`},
	{"sofbytes-at", []string{"sofbytes"}, `(forall ((r (Array Int Int)) (lo Int) (n Int) (i Int)) (! (=> (and (<= 0 i) (< i n) (<= 0 (select r (+ lo i))) (< (select r (+ lo i)) 256)) (= (sat (sofbytes r lo n) i) (select r (+ lo i)))) :pattern ((sat (sofbytes r lo n) i))))`},
	{"seqx-def", []string{"seqx"}, `(forall ((a Str) (b Str)) (! (= (seqx a b) (and (= (slen a) (slen b)) (forall ((i Int)) (! (=> (and (<= 0 i) (< i (slen a))) (= (sat a i) (sat b i))) :pattern ((sat a i)) :pattern ((sat b i)))))) :pattern ((seqx a b))))`},
	{"seqx-eq", []string{"seqx"}, `(forall ((a Str) (b Str)) (! (=> (seqx a b) (= a b)) :pattern ((seqx a b))))`},
	{"sle-refl", []string{"sle"}, `(forall ((a Str)) (! (sle a a) :pattern ((sle a a))))`},
	{"sle-total", []string{"sle"}, `(forall ((a Str) (b Str)) (! (or (sle a b) (sle b a)) :pattern ((sle a b))))`},
	{"sle-antisym", []string{"sle"}, `(forall ((a Str) (b Str)) (! (=> (and (sle a b) (sle b a)) (= a b)) :pattern ((sle a b))))`},
	{"sle-empty", []string{"sle"}, `(forall ((a Str)) (! (and (sle sempty a) (=> (sle a sempty) (= a sempty))) :pattern ((sle sempty a)) :pattern ((sle a sempty))))`},
	{"sle-char", []string{"sle"}, `(forall ((a Str) (b Str)) (! (=> (and (= (slen a) 1) (= (slen b) 1)) (= (sle a b) (<= (sat a 0) (sat b 0)))) :pattern ((sle a b))))`},
	{"sle-first", []string{"sle"}, `(forall ((a Str) (b Str)) (! (=> (and (>= (slen a) 1) (>= (slen b) 1) (not (= (sat a 0) (sat b 0)))) (= (sle a b) (< (sat a 0) (sat b 0)))) :pattern ((sle a b))))`},
	{"sfold-refl", []string{"sfold"}, `(forall ((a Str) (b Str)) (! (and (=> (= a b) (sfold a b)) (=> (sfold a b) (= (slen a) (slen b))) (= (sfold a b) (sfold b a))) :pattern ((sfold a b))))`},
	{"runew", []string{"runew"}, `(forall ((s Str) (i Int)) (! (and (<= 1 (runew s i)) (<= (runew s i) 4) (>= (runeat s i) 128)) :pattern ((runew s i))))`},
	{"itoa-inj", []string{"itoa"}, `(forall ((n Int)) (! (and (= (atoi (itoa n)) n) (atoiok (itoa n)) (>= (slen (itoa n)) 1)) :pattern ((itoa n))))`},
}

// prelude returns the declarations and the relevant axioms for a VC body.
func prelude(body string) (string, []string) {
	toks := symbolSet(body)
	var b strings.Builder
	b.WriteString(preludeDecls)
	var used []string
	// relevance is closed under the symbols the included axioms introduce themselves
	in := map[string]bool{}
	for changed := true; changed; {
		changed = false
		for _, ax := range strAxioms {
			if in[ax.name] {
				continue
			}
			for _, s := range ax.syms {
				if containsSym(toks, s) {
					in[ax.name] = true
					changed = true
					for t := range symbolSet(ax.text) {
						toks[t] = true
					}
					break
				}
			}
		}
	}
	for _, ax := range strAxioms {
		if in[ax.name] {
			b.WriteString("(assert " + ax.text + ") ; axiom " + ax.name + "\n")
			used = append(used, ax.name)
		}
	}
	return b.String(), used
}

// containsSym: the function symbol occurs applied, e.g. "(sle " (not as part of "slen").
func containsSym(toks map[string]bool, sym string) bool {
	return toks[strings.Trim(sym, "( ")]
}

// symbolSet returns the set of symbols (maximal runs of symbol characters) of an SMT text.
func symbolSet(text string) map[string]bool {
	toks := map[string]bool{}
	start := -1
	for i := 0; i < len(text); i++ {
		c := text[i]
		isSym := c > ' ' && c != '(' && c != ')'
		if isSym {
			if start < 0 {
				start = i
			}
		} else if start >= 0 {
			toks[text[start:i]] = true
			start = -1
		}
	}
	if start >= 0 {
		toks[text[start:]] = true
	}
	return toks
}
