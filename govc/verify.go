package main

import (
	"fmt"
	"go/token"
	"go/types"
	"regexp"
	"sort"
	"strings"

	"golang.org/x/tools/go/ssa"
)

// special: hook for functions modelled directly by the engine.
func (en *Engine) special(f *Frame, callee *ssa.Function, key string, args []Val, reach string, h *Heap, pos interface{}, rt types.Type) (Val, bool) {
	return Val{}, false
}

// scanUniverse registers boxed types and escaping field addresses of the repo packages.
func (en *Engine) scanUniverse() {
	u := en.u
	u.escFieldType = map[string]types.Type{}
	var fns []*ssa.Function
	for fn := range allFunctions(en.prog) {
		fns = append(fns, fn)
	}
	sort.Slice(fns, func(i, j int) bool { return fns[i].String() < fns[j].String() })
	for _, fn := range fns {
		if fn.Blocks == nil {
			continue
		}
		inRepo := fn.Pkg != nil && u.repoPkgs[fn.Pkg.Pkg.Path()]
		if !inRepo {
			if o := fn.Origin(); o == nil || o.Pkg == nil || !u.repoPkgs[o.Pkg.Pkg.Path()] {
				continue
			}
		}
		for _, b := range fn.Blocks {
			for _, ins := range b.Instrs {
				switch i := ins.(type) {
				case *ssa.MakeInterface:
					u.registerBoxed(i.X.Type())
				case *ssa.FieldAddr:
					if escapes(i) {
						st := i.X.Type().Underlying().(*types.Pointer).Elem()
						stt := st.Underlying().(*types.Struct)
						comp := u.fieldComp(st, stt.Field(i.Field).Name())
						u.escFields[comp] = true
						u.escFieldType[comp] = stt.Field(i.Field).Type()
						u.fldCode(comp)
					}
				}
			}
		}
	}
}

func escapes(fa *ssa.FieldAddr) bool {
	for _, r := range *fa.Referrers() {
		switch x := r.(type) {
		case *ssa.UnOp:
		case *ssa.Store:
			if x.Val == ssa.Value(fa) {
				return true
			}
		case *ssa.FieldAddr, *ssa.IndexAddr, *ssa.DebugRef:
		default:
			return true
		}
	}
	return false
}

func allFunctions(prog *ssa.Program) map[*ssa.Function]bool {
	seen := map[*ssa.Function]bool{}
	var visit func(fn *ssa.Function)
	visit = func(fn *ssa.Function) {
		if fn == nil || seen[fn] {
			return
		}
		seen[fn] = true
		for _, b := range fn.Blocks {
			for _, ins := range b.Instrs {
				for _, op := range ins.Operands(nil) {
					if f2, ok := (*op).(*ssa.Function); ok {
						visit(f2)
					}
				}
			}
		}
		for _, an := range fn.AnonFuncs {
			visit(an)
		}
	}
	for _, pkg := range prog.AllPackages() {
		for _, m := range pkg.Members {
			switch mm := m.(type) {
			case *ssa.Function:
				visit(mm)
			case *ssa.Type:
				for _, t := range []types.Type{mm.Type(), types.NewPointer(mm.Type())} {
					ms := prog.MethodSets.MethodSet(t)
					for i := 0; i < ms.Len(); i++ {
						visit(prog.MethodValue(ms.At(i)))
					}
				}
			}
		}
	}
	return seen
}

// verifyFunc builds the VC of one function against its contract.
func (en *Engine) verifyFunc(fn *ssa.Function, ct *FuncContract, findings ...*Finding) *VC {
	key := funcKey(fn)
	vcName := key
	if ta := fn.TypeArgs(); len(ta) > 0 {
		var ns []string
		for _, t := range ta {
			ns = append(ns, typeKey(t))
		}
		vcName = key + "[" + strings.Join(ns, ",") + "]"
	}
	vc := newVC(en.u, en.cs, vcName, en.fset)
	vc.declare("now0", "Int")
	vc.assume("(> now0 0)")
	h0 := &Heap{ver: map[string]string{}, now: "now0"}
	f := &Frame{en: en, vc: vc, fn: fn, env: map[ssa.Value]Val{}, lets: map[string]Val{}, ct: ct, top: true, stack: []string{key}, props: ct.Props}
	if ct.NoPanicProps != nil {
		f.props = ct.NoPanicProps
	}
	f.noFrame = ct.NoFrame
	for _, p := range fn.Params {
		v := f.freshVal("p "+p.Name(), p.Type(), h0)
		f.params = append(f.params, v)
		f.env[p] = v
	}
	if fn.Synthetic != "" && fn.Name() == "init" && fn.Pkg != nil {
		// the package initializer runs once: its guard is false on entry (Go spec, package initialization)
		if g, ok := fn.Pkg.Members["init$guard"].(*ssa.Global); ok {
			gv := f.load(f.val(g), h0, "true", token.NoPos)
			vc.assume(not(gv.E))
		}
	}
	vc.fnSSA, vc.paramVals = fn, f.params
	f.entry = h0.clone()
	ctx := f.specCtx(f.entry, nil)
	// closed world for interface-typed parameters is assumed at invoke sites
	for _, l := range ct.Lets {
		f.lets[l.Name] = ctx.eval(l.E)
		ctx.binds = f.lets
	}
	en.assumeGlobalAxioms(f, ctx)
	for _, rq := range en.activeClauses(ct.Requires, ct) {
		vc.assume(ctx.evalBool(rq.E))
	}
	for _, rq := range en.activeClauses(ct.Presumes, ct) {
		vc.assume(ctx.evalBool(rq.E))
		vc.assumed = append(vc.assumed, "presumed precondition of "+key+" (not checked at call sites): "+rq.Src)
	}
	vc.topFrame = f
	for _, fd := range findings {
		if fd.Function == key {
			if _, err := en.regionTerm(vc, fd); err != nil {
				vc.errorf("%v", err)
			}
		}
	}
	cover := vc.oblige("cover.requires", "cover", "false", ct.Props, ct.Where, "requires of "+key+" is satisfiable")
	cover.WantSat = true
	if fn.Blocks == nil {
		vc.errorf("%s has no body", key)
		return vc
	}
	f.run("true", h0)
	for ri, r := range f.rets {
		res := Val{S: "Tuple", T: fn.Signature.Results()}
		if len(r.vals) == 1 {
			res = r.vals[0]
		} else {
			res.Tuple = r.vals
		}
		if r.block != nil {
			vc.curBlk = r.block.Index
		}
		post := &SpecCtx{f: f, fn: fn, params: f.params, heap: r.heap, old: f.entry, binds: f.lets, result: &res, pkg: pkgOf(fn)}
		if r.reach != "false" {
			// vacuity guard: the facts collected along the way to this return must be satisfiable
			// (a) the assumptions alone must be satisfiable; (b) the path itself: unreachable
			// returns are tolerated (dead code under the preconditions) unless every return of the
			// function is unreachable
			if ri == len(f.rets)-1 {
				sc := vc.oblige("smoke.ctx", "cover", "false", ct.Props, r.where, "the assumptions collected over the whole function are not contradictory")
				sc.WantSat = true
				sc.Blk = -1 // every line
			}
			sm := vc.oblige(fmt.Sprintf("smoke.path@return#%d", ri+1), "cover", not(r.reach), ct.Props, r.where, "some input reaches this return")
			sm.WantSat = true
			sm.Dead = true
		}
		var conds []string
		if !r.dup {
			conds = f.splitConds(r.block)
		}
		if len(r.vals) > 0 {
			vc.curRes = r.vals
		} else {
			vc.curRes = nil
		}
		for k, e := range en.activeClauses(ct.Ensures, ct) {
			name := fmt.Sprintf("post.%s@return#%d", clauseName(e, k), ri+1)
			goal, why := vc.checkedGoal(post, e.E)
			if len(conds) <= 1 || why != "" {
				vc.oblige(name, "post", implies(r.reach, goal), clauseProps(e, ct.Props), e.Where+" / "+r.where, "ensures "+e.Src+why)
				if why == "" {
					vc.assume(implies(r.reach, goal))
				}
				continue
			}
			for pi, c := range conds {
				vc.oblige(fmt.Sprintf("%s/path#%d", name, pi+1), "post", implies(and(c, r.reach), goal), clauseProps(e, ct.Props), e.Where+" / via "+f.splitWhere[pi], "ensures "+e.Src)
			}
			// later clauses of the same return site may use this one (it is checked above)
			vc.assume(implies(r.reach, goal))
		}
	}
	if len(f.rets) == 0 && len(ct.Ensures) > 0 && !ct.NoReturn {
		vc.notes = append(vc.notes, key+": no return site")
	}
	return vc
}

// assumeGlobalAxioms adds the axioms declared in contract files (relevant ones are filtered
// textually when the query is assembled).
func (en *Engine) assumeGlobalAxioms(f *Frame, ctx *SpecCtx) {
	for _, ax := range en.cs.Axioms {
		if ax.Lemma {
			continue
		}
		// "name@pkg.func": a defining axiom that is unfolded only in the proof of that function
		// (recursive definitions are matching loops: elsewhere the symbol stays uninterpreted)
		if j := strings.Index(ax.Name, "@"); j >= 0 && !strings.HasPrefix(f.vc.fn, ax.Name[j+1:]) {
			continue
		}
		c := &SpecCtx{f: f, heap: f.entry, old: f.entry, binds: map[string]Val{}, quiet: false}
		if sp, ok := en.pkgs[ax.Pkg]; ok {
			c.pkg = sp.Pkg
		}
		t := c.evalBool(ax.E)
		f.vc.axioms = append(f.vc.axioms, axiomText{name: ax.Name, text: t})
	}
}

type axiomText struct {
	name, text string
	syms       []string
}

var sfSym = regexp.MustCompile(`sf_[^ ()]+`)

// relevantAxioms selects contract-file axioms whose spec functions occur in the body.
func (vc *VC) relevantAxioms(body string) string {
	inc := map[int]bool{}
	toks := symbolSet(body)
	for changed := true; changed; {
		changed = false
		for i, ax := range vc.axioms {
			if inc[i] {
				continue
			}
			if ax.syms == nil {
				vc.axioms[i].syms = append([]string{}, sfSym.FindAllString(ax.text, -1)...)
				ax = vc.axioms[i]
			}
			syms := ax.syms
			rel := len(syms) == 0
			for _, s := range syms {
				if toks[s] {
					rel = true
					break
				}
			}
			if rel {
				inc[i] = true
				for _, s := range syms {
					toks[s] = true
				}
				changed = true
			}
		}
	}
	var b strings.Builder
	for i, ax := range vc.axioms {
		if inc[i] {
			b.WriteString("(assert " + ax.text + ") ; axiom " + ax.name + "\n")
			vc.usedAx["contract axiom "+ax.name] = true
		}
	}
	return b.String()
}

// assemble builds the SMT-LIB text of one obligation.
func (en *Engine) assemble(vc *VC, o *Oblig, wantModel bool) string {
	var b strings.Builder
	b.WriteString("; obligation " + o.Name + "\n; " + o.Where + "\n; " + strings.ReplaceAll(o.Src, "\n", " ") + "\n")
	if wantModel {
		b.WriteString("(set-option :produce-models true)\n")
	}
	b.WriteString("(set-logic ALL)\n")
	var bodyLines []string
	for i, l := range vc.lines[:o.NLines] {
		if vc.reach != nil && o.Blk >= 0 && i < len(vc.lineBlk) && vc.lineBlk[i] >= 0 && !strings.HasPrefix(l, "(declare-") {
			if m := vc.reach[vc.lineBlk[i]]; m != nil && !m[o.Blk] {
				continue
			}
		}
		bodyLines = append(bodyLines, l)
	}
	body := strings.Join(bodyLines, "\n") + "\n" + o.Goal
	b.WriteString(en.u.declarations())
	axioms := vc.relevantAxioms(body)
	pre, used := prelude(body + axioms)
	for _, a := range used {
		vc.usedAx[a] = true
	}
	b.WriteString(pre)
	// declarations must precede axioms that mention spec functions: split lines
	var decls, rest []string
	for i, l := range vc.lines[:o.NLines] {
		if strings.HasPrefix(l, "(declare-") {
			decls = append(decls, l)
			continue
		}
		// control-flow slicing: facts emitted in blocks that cannot reach the obligation's block
		// (other branches) are irrelevant and are left out
		if vc.reach != nil && o.Blk >= 0 && i < len(vc.lineBlk) && vc.lineBlk[i] >= 0 {
			if m := vc.reach[vc.lineBlk[i]]; m != nil && !m[o.Blk] {
				continue
			}
		}
		rest = append(rest, l)
	}
	b.WriteString(strings.Join(vc.specLines, "\n") + "\n")
	b.WriteString(strings.Join(decls, "\n") + "\n")
	b.WriteString(axioms)
	b.WriteString(strings.Join(rest, "\n") + "\n")
	if o.WantSat {
		if o.Goal != "false" {
			b.WriteString("(assert (not " + o.Goal + "))\n")
		}
		b.WriteString("(check-sat)\n")
	} else {
		b.WriteString("(assert (not " + o.Goal + "))\n(check-sat)\n")
		if wantModel {
			b.WriteString("(get-model)\n")
		}
	}
	return b.String()
}

// splitConds enumerates the edges through which control reaches block b, looking through
// join blocks that only hold phis and a jump/return. Used to split large obligations by path.
func (f *Frame) splitConds(b *ssa.BasicBlock) []string {
	if b == nil {
		return nil
	}
	var out []string
	f.splitWhere = nil
	var walk func(b *ssa.BasicBlock, depth int)
	walk = func(b *ssa.BasicBlock, depth int) {
		for _, p := range b.Preds {
			if f.end[p] == nil || f.loops[b] != nil {
				continue
			}
			trivial := len(p.Succs) == 1 && len(p.Preds) > 1 && f.loops[p] == nil
			if trivial {
				for _, ins := range p.Instrs {
					switch ins.(type) {
					case *ssa.Phi, *ssa.Jump, *ssa.DebugRef:
					default:
						trivial = false
					}
				}
			}
			if trivial && depth < 12 {
				walk(p, depth+1)
			} else {
				out = append(out, f.edgeCond(p, b))
				w := ""
				for k := len(p.Instrs) - 1; k >= 0 && w == ""; k-- {
					w = f.where(p.Instrs[k].Pos())
				}
				f.splitWhere = append(f.splitWhere, w)
			}
		}
	}
	if len(b.Preds) > 1 && f.loops[b] == nil {
		walk(b, 0)
	}
	if len(out) > 320 {
		return nil
	}
	return out
}
