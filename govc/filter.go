package main

// activeClauses filters contract clauses by the property under check: a clause tagged with
// property ids is used (as assumption and as obligation) only in checks of those properties;
// an untagged clause inherits the tags of its function. Without an active property (developer
// runs) every clause is used.
func (en *Engine) activeClauses(cs []Clause, ct *FuncContract) []Clause {
	if en.activeProp == "" {
		return cs
	}
	var out []Clause
	for _, c := range cs {
		ps := c.Props
		if len(ps) == 0 {
			// untagged clauses of a function that is used by callers of any property
			out = append(out, c)
			continue
		}
		if hasProp(ps, en.activeProp) {
			out = append(out, c)
		}
	}
	return out
}
