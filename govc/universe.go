package main

import (
	"fmt"
	"go/types"
	"sort"
	"strings"

	"golang.org/x/tools/go/ssa"
)

// Universe maps Go types of the loaded program to SMT sorts.
type Universe struct {
	prog         *ssa.Program
	repoPkgs     map[string]bool // package paths under verification (module of /repo)
	structs      map[string]*StructInfo
	structOrd    []string
	boxed        map[string]types.Type // type key -> concrete type boxed into some interface
	boxedOrd     []string
	ghost        map[string][]GhostField // struct sort -> ghost fields
	fldCodes     map[string]int          // component name -> code for escaping field pointers
	escFields    map[string]bool         // component names whose address escapes
	escFieldType map[string]types.Type
	declCache    string
	declN        int
}

type StructInfo struct {
	Sort   string
	Name   string // type string
	T      types.Type
	St     *types.Struct
	Opaque bool
}

type GhostField struct {
	Name string
	Sort string
}

func typeKey(t types.Type) string {
	s := types.TypeString(t, func(p *types.Package) string { return p.Name() })
	// one key for the empty interface however it is spelled
	return strings.ReplaceAll(s, "interface{}", "any")
}

func newUniverse(prog *ssa.Program, repo map[string]bool) *Universe {
	return &Universe{prog: prog, repoPkgs: repo, structs: map[string]*StructInfo{}, boxed: map[string]types.Type{},
		ghost: map[string][]GhostField{}, fldCodes: map[string]int{}, escFields: map[string]bool{}}
}

func (u *Universe) isRepoType(t types.Type) bool {
	if n, ok := t.(*types.Named); ok {
		if n.Obj().Pkg() == nil {
			return false
		}
		return u.repoPkgs[n.Obj().Pkg().Path()]
	}
	return true // unnamed struct types
}

// sortOf returns the SMT sort for a Go type.
func (u *Universe) sortOf(t types.Type) string {
	switch tt := t.(type) {
	case *types.Named:
		if _, ok := tt.Underlying().(*types.Struct); ok {
			return u.structSort(tt)
		}
		return u.sortOf(tt.Underlying())
	case *types.Alias:
		return u.sortOf(types.Unalias(tt))
	case *types.Basic:
		switch {
		case tt.Info()&types.IsBoolean != 0:
			return "Bool"
		case tt.Info()&types.IsInteger != 0:
			return "Int"
		case tt.Info()&types.IsString != 0:
			return "Str"
		case tt.Kind() == types.UntypedNil:
			return "Ptr"
		case tt.Kind() == types.UnsafePointer:
			return "Ptr"
		case tt.Info()&types.IsFloat != 0:
			return "Real"
		}
		return "Int"
	case *types.Pointer:
		return "Ptr"
	case *types.Slice:
		return "Slice"
	case *types.Map:
		return "Int"
	case *types.Interface:
		return "Iface"
	case *types.Struct:
		return u.structSort(tt)
	case *types.Signature:
		return "Fn"
	case *types.Array:
		return "Ptr" // arrays only appear behind pointers (varargs); value arrays unsupported
	case *types.Chan:
		return "Int"
	case *types.Tuple:
		return "Tuple"
	case *types.TypeParam:
		return "Iface"
	}
	panic(fmt.Sprintf("sortOf: unsupported type %T %v", t, t))
}

func (u *Universe) structSort(t types.Type) string {
	k := typeKey(t)
	if si, ok := u.structs[k]; ok {
		return si.Sort
	}
	st := t.Underlying().(*types.Struct)
	si := &StructInfo{Sort: q("T " + k), Name: k, T: t, St: st, Opaque: !u.isRepoType(t)}
	u.structs[k] = si
	u.structOrd = append(u.structOrd, k)
	if !si.Opaque {
		for i := 0; i < st.NumFields(); i++ {
			u.sortOf(st.Field(i).Type()) // register nested
		}
	}
	return si.Sort
}

func (u *Universe) structInfo(t types.Type) *StructInfo {
	u.structSort(t)
	return u.structs[typeKey(t)]
}

func (u *Universe) mkName(si *StructInfo) string            { return q("mk " + si.Name) }
func (u *Universe) selName(si *StructInfo, f string) string { return q(si.Name + "." + f) }

// fieldComp is the heap component name for field f of struct type t.
func (u *Universe) fieldComp(t types.Type, f string) string {
	return q("H " + typeKey(derefNamed(t)) + "." + f)
}

// cellComp is the heap component for cells/elements of non-struct type t.
func (u *Universe) cellComp(t types.Type) string {
	return q("E " + typeKey(t))
}

func derefNamed(t types.Type) types.Type {
	if p, ok := t.Underlying().(*types.Pointer); ok {
		return p.Elem()
	}
	return t
}

func isStruct(t types.Type) bool {
	_, ok := t.Underlying().(*types.Struct)
	return ok
}

func (u *Universe) registerBoxed(t types.Type) {
	k := typeKey(t)
	if _, ok := u.boxed[k]; ok {
		return
	}
	u.boxed[k] = t
	u.boxedOrd = append(u.boxedOrd, k)
	u.sortOf(t)
}

func (u *Universe) boxName(t types.Type) string   { return q("box " + typeKey(t)) }
func (u *Universe) unboxName(t types.Type) string { return q("unbox " + typeKey(t)) }

func (u *Universe) fldCode(comp string) int {
	if c, ok := u.fldCodes[comp]; ok {
		return c
	}
	c := len(u.fldCodes) + 1
	u.fldCodes[comp] = c
	return c
}

// zero value term for a Go type.
func (u *Universe) zeroOf(t types.Type) string {
	s := u.sortOf(t)
	switch s {
	case "Int":
		return "0"
	case "Real":
		return "0.0"
	case "Bool":
		return "false"
	case "Str":
		return "sempty"
	case "Ptr":
		return nilPtr
	case "Slice":
		return nilSlice
	case "Iface":
		return "inil"
	case "Fn":
		return "fnnil"
	}
	si := u.structInfo(t)
	if si.Opaque || si.St.NumFields() == 0 {
		return u.mkName(si)
	}
	args := []string{}
	for i := 0; i < si.St.NumFields(); i++ {
		args = append(args, u.zeroOf(si.St.Field(i).Type()))
	}
	return app(u.mkName(si), args...)
}

// declarations emits the datatype block. Must be called after all types were registered;
// it iterates until closure.
func (u *Universe) declarations() string {
	if u.declCache != "" && u.declN == len(u.structOrd)+len(u.boxedOrd) {
		return u.declCache
	}
	s := u.declarationsUncached()
	u.declCache, u.declN = s, len(u.structOrd)+len(u.boxedOrd)
	return s
}

func (u *Universe) declarationsUncached() string {
	var b strings.Builder
	// closure: registering sorts of fields/boxed may add more
	for n := -1; n != len(u.structOrd)+len(u.boxedOrd); {
		n = len(u.structOrd) + len(u.boxedOrd)
		for _, k := range append([]string{}, u.structOrd...) {
			si := u.structs[k]
			if !si.Opaque {
				for i := 0; i < si.St.NumFields(); i++ {
					u.sortOf(si.St.Field(i).Type())
				}
			}
		}
		for _, k := range append([]string{}, u.boxedOrd...) {
			u.sortOf(u.boxed[k])
		}
	}
	names := []string{"(Ptr 0)", "(Slice 0)", "(Iface 0)"}
	defs := []string{
		"((mkptr (pref Int) (pidx Int) (pfld Int)))",
		"((mkslice (sref Int) (slo Int) (sln Int) (scp Int)))",
	}
	ks := append([]string{}, u.boxedOrd...)
	sort.Strings(ks)
	iface := "((inil)"
	for _, k := range ks {
		t := u.boxed[k]
		iface += fmt.Sprintf(" (%s (%s %s))", u.boxName(t), u.unboxName(t), u.sortOf(t))
	}
	iface += " (iother (iotherid Int)))"
	defs = append(defs, iface)
	sk := append([]string{}, u.structOrd...)
	sort.Strings(sk)
	for _, k := range sk {
		si := u.structs[k]
		names = append(names, fmt.Sprintf("(%s 0)", si.Sort))
		if si.Opaque || si.St.NumFields() == 0 {
			defs = append(defs, fmt.Sprintf("((%s))", u.mkName(si)))
			continue
		}
		d := "((" + u.mkName(si)
		for i := 0; i < si.St.NumFields(); i++ {
			f := si.St.Field(i)
			d += fmt.Sprintf(" (%s %s)", u.selName(si, f.Name()), u.sortOf(f.Type()))
		}
		d += "))"
		defs = append(defs, d)
	}
	b.WriteString("(declare-sort Str 0)\n(declare-sort Fn 0)\n(declare-const fnnil Fn)\n")
	b.WriteString("(declare-datatypes (" + strings.Join(names, " ") + ") (\n  " + strings.Join(defs, "\n  ") + "))\n")
	return b.String()
}
