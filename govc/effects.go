package main

import (
	"fmt"
	"go/types"
	"sort"
	"strings"

	"golang.org/x/tools/go/ssa"
)

// Write-effect inference (DESIGN §2.6, C19): the set of heap components a function may write,
// by fixpoint over the SSA call graph. Stores are classified by the static type of the
// address (field of struct type / element of slice / cell), so the result is an
// over-approximation at component granularity. External functions contribute the components
// of their (assumed) modifies clauses, or nothing when they have no contract (listed).
type effectSet struct {
	comps      map[string]string // component -> element sort
	all        bool              // may write anything (dynamic call, unsupported construct)
	globals    map[string]bool   // package-level variables written (subset of comps, "G pkg.name")
	unknownExt map[string]bool
	serial     map[string]string // package-level variables written only inside a section of a package-level mutex: component -> mutex ("?" = under different mutexes)
}

func newEffectSet() *effectSet {
	return &effectSet{comps: map[string]string{}, globals: map[string]bool{}, unknownExt: map[string]bool{}, serial: map[string]string{}}
}

func (e *effectSet) add(o *effectSet) bool {
	ch := false
	for k, v := range o.comps {
		if _, ok := e.comps[k]; !ok {
			e.comps[k] = v
			ch = true
		}
	}
	for k := range o.globals {
		if !e.globals[k] {
			e.globals[k] = true
			ch = true
		}
	}
	for k := range o.unknownExt {
		if !e.unknownExt[k] {
			e.unknownExt[k] = true
			ch = true
		}
	}
	if o.all && !e.all {
		e.all = true
		ch = true
	}
	for k, mu := range o.serial {
		if old, ok := e.serial[k]; !ok {
			e.serial[k] = mu
			ch = true
		} else if old != mu && old != "?" {
			e.serial[k] = "?"
			ch = true
		}
	}
	return ch
}

// addUnder adds the effects of a callee invoked while the package-level mutex mu is held: its
// writes of package-level variables become writes serialised by mu (see locks.go).
func (e *effectSet) addUnder(o *effectSet, mu string) bool {
	if mu == "" {
		return e.add(o)
	}
	c := newEffectSet()
	c.all = o.all
	for k, v := range o.comps {
		if !o.globals[k] {
			c.comps[k] = v
		}
	}
	for k := range o.unknownExt {
		c.unknownExt[k] = true
	}
	for k, v := range o.serial {
		c.serial[k] = v
	}
	for k := range o.globals {
		if old, ok := c.serial[k]; ok && old != mu {
			c.serial[k] = "?"
		} else {
			c.serial[k] = mu
		}
	}
	return e.add(c)
}

func (en *Engine) effects(fn *ssa.Function) *effectSet {
	if en.effMemo == nil {
		en.effMemo = map[*ssa.Function]*effectSet{}
	}
	if e, ok := en.effMemo[fn]; ok && en.effDone[fn] {
		return e
	}
	// collect the reachable functions, then iterate to a fixpoint
	var order []*ssa.Function
	seen := map[*ssa.Function]bool{}
	var visit func(f *ssa.Function)
	visit = func(f *ssa.Function) {
		if f == nil || seen[f] {
			return
		}
		seen[f] = true
		order = append(order, f)
		if en.effMemo[f] == nil {
			en.effMemo[f] = newEffectSet()
		}
		for _, c := range en.callees(f) {
			visit(c)
		}
	}
	visit(fn)
	for changed := true; changed; {
		changed = false
		for _, f := range order {
			if en.effectsStep(f) {
				changed = true
			}
		}
	}
	if en.effDone == nil {
		en.effDone = map[*ssa.Function]bool{}
	}
	for _, f := range order {
		en.effDone[f] = true
	}
	return en.effMemo[fn]
}

// callees of f as far as effects are concerned (contract functions stop the descent).
func (en *Engine) callees(f *ssa.Function) []*ssa.Function {
	if f.Blocks == nil || !en.inRepo(f) {
		return nil
	}
	if ct := en.cs.Funcs[funcKey(f)]; ct != nil && !ct.Inline && !ct.ModAll && !ct.ModInferred && (len(ct.Modifies) > 0 || ct.Trusted) {
		return nil
	}
	var out []*ssa.Function
	for _, b := range f.Blocks {
		for _, ins := range b.Instrs {
			call, ok := ins.(ssa.CallInstruction)
			if !ok {
				continue
			}
			c := call.Common()
			if c.IsInvoke() {
				out = append(out, en.implementations(c)...)
				continue
			}
			if callee, ok := c.Value.(*ssa.Function); ok {
				out = append(out, callee)
			}
		}
	}
	return out
}

func (en *Engine) implementations(c *ssa.CallCommon) []*ssa.Function {
	it := c.Value.Type().Underlying().(*types.Interface)
	var out []*ssa.Function
	bk := append([]string{}, en.u.boxedOrd...)
	sort.Strings(bk)
	for _, k := range bk {
		t := en.u.boxed[k]
		if !types.Implements(t, it) {
			continue
		}
		sel := en.prog.MethodSets.MethodSet(t).Lookup(c.Method.Pkg(), c.Method.Name())
		if sel == nil {
			continue
		}
		if fn := en.prog.MethodValue(sel); fn != nil {
			out = append(out, fn)
		}
	}
	return out
}

func (en *Engine) effectsStep(f *ssa.Function) bool {
	e := en.effMemo[f]
	n := newEffectSet()
	key := funcKey(f)
	ct := en.cs.Funcs[key]
	if ct != nil && !ct.Inline && !ct.ModAll && !ct.ModInferred && (len(ct.Modifies) > 0 || ct.Trusted || f.Blocks == nil) {
		if en.effByClause == nil {
			en.effByClause = map[string]string{}
		}
		if f.Blocks != nil && en.inRepo(f) {
			how := "its modifies clause, proved against the body by the frame obligations of that function in the checks of " + strings.Join(ct.Props, ", ")
			if ct.Trusted {
				how = "its trusted contract (body not verified)"
			}
			en.effByClause[key] = how
		}
		for _, m := range ct.Modifies {
			ts, ok := en.lvalueComps(m, f)
			if !ok {
				n.all = true
				continue
			}
			for _, t := range ts {
				n.comps[t.comp] = t.sort
				if len(t.comp) > 3 && t.comp[:2] == "G_" {
					n.globals[t.comp] = true
				}
			}
		}
		return e.add(n)
	}
	if f.Blocks == nil || !en.inRepo(f) {
		if ct == nil {
			n.unknownExt[key] = true
		}
		return e.add(n)
	}
	fr := &Frame{en: en, vc: newVC(en.u, en.cs, "eff", en.fset), fn: f, env: map[ssa.Value]Val{}}
	fresh := freshValues(f)
	if en.effSites != nil {
		en.effSites[f] = nil
	}
	changedSummary := false
	addc := func(comp, sort, ref string) {
		n.comps[comp] = sort
		if len(comp) > 3 && comp[:2] == "G_" {
			n.globals[comp] = true
		}
	}
	gder := en.globalDerived(f)
	held := heldMap(f)
	// a value derived from a package-level variable that is returned hands the shared object to
	// the caller (summary used by globalDerived of the callers)
	for _, b := range f.Blocks {
		for _, ins := range b.Instrs {
			if r, ok := ins.(*ssa.Return); ok {
				for _, v := range r.Results {
					if g, ok := gder[baseOf(v)]; ok {
						if en.retGlobal == nil {
							en.retGlobal = map[*ssa.Function]string{}
						}
						if en.retGlobal[f] == "" {
							en.retGlobal[f] = g
							changedSummary = true
						}
					}
				}
			}
		}
	}
	viaGlobal := func(v ssa.Value, ins ssa.Instruction) {
		if g, ok := gder[baseOf(v)]; ok {
			comp := q("G " + g)
			n.comps[comp] = "Int"
			n.globals[comp] = true
			if en.effSites != nil {
				en.effSites[f] = append(en.effSites[f], ins)
			}
			if en.viaGlobal == nil {
				en.viaGlobal = map[ssa.Instruction]string{}
			}
			en.viaGlobal[ins] = comp
		}
	}
	for _, b := range f.Blocks {
		for _, ins := range b.Instrs {
			switch i := ins.(type) {
			case *ssa.Store:
				viaGlobal(i.Addr, i)
				// a store to the variable itself or into it (an element of a package-level array, a
				// field of a package-level struct)
				if g, ok := baseOf(i.Addr).(*ssa.Global); ok {
					comp := q("G " + g.Pkg.Pkg.Name() + "." + g.Name())
					if mu := held[i]; mu != "" {
						if old, ok := n.serial[comp]; ok && old != mu {
							n.serial[comp] = "?"
						} else {
							n.serial[comp] = mu
						}
						continue
					}
					addc(comp, en.u.sortOf(g.Type().(*types.Pointer).Elem()), "")
					if en.effSites != nil {
						en.effSites[f] = append(en.effSites[f], i)
					}
					continue
				}
				if fresh[baseOf(i.Addr)] {
					continue // initialisation of memory allocated by this very activation
				}
				fr.addStoreByType(i.Addr, addc)
				if en.effSites != nil {
					en.effSites[f] = append(en.effSites[f], i)
				}
			case *ssa.MapUpdate:
				viaGlobal(i.Map, i)
				if fresh[i.Map] {
					continue
				}
				mt := i.Map.Type().Underlying().(*types.Map)
				d, v := fr.mapComps(mt)
				fr.mapCur(mt, &Heap{ver: map[string]string{}, now: "now0"})
				en.mapSortMemo[d] = fr.vc.mapSorts[d]
				en.mapSortMemo[v] = fr.vc.mapSorts[v]
				addc(d, "MapDom", "")
				addc(v, "MapVal", "")
			case *ssa.Next:
				addc(q("E iterpos"), "Int", "")
			case *ssa.Go, *ssa.Defer:
				n.all = true
			case ssa.CallInstruction:
				c := i.Common()
				if k, _ := mutexOf(ins); k != "" {
					continue // Lock/Unlock of a sync mutex: synchronisation, not a data write
				}
				// a value read from a package-level variable handed to a callee that writes
				// pre-existing memory: the callee may write the shared object through it
				writes := func(es *effectSet) bool { return es != nil && (es.all || len(es.comps) > 0) }
				calleeWrites := false
				if c.IsInvoke() {
					for _, impl := range en.implementations(c) {
						calleeWrites = calleeWrites || writes(en.effMemo[impl])
					}
				} else if cf, ok := c.Value.(*ssa.Function); ok {
					calleeWrites = writes(en.effMemo[cf])
				}
				if calleeWrites {
					if c.IsInvoke() {
						viaGlobal(c.Value, i)
					}
					for _, a := range c.Args {
						switch a.Type().Underlying().(type) {
						case *types.Pointer, *types.Slice, *types.Map, *types.Interface, *types.Struct:
							viaGlobal(a, i)
						}
					}
				}
				if c.IsInvoke() {
					for _, impl := range en.implementations(c) {
						if en.effMemo[impl] != nil {
							n.addUnder(en.effMemo[impl], held[ins])
						}
					}
					continue
				}
				// a function of a dependency that has no contract may write whatever memory it is
				// handed (sort.Sort sorts in place): its reference arguments that are not this
				// activation's own allocations count as written, by the type of what they refer to
				if cf, ok := c.Value.(*ssa.Function); ok && (cf.Blocks == nil || !en.inRepo(cf)) && en.cs.Funcs[funcKey(cf)] == nil {
					for _, a := range c.Args {
						for _, r := range carriedRefs(a, en, map[ssa.Value]bool{}) {
							if fresh[baseOf(r)] {
								continue
							}
							viaGlobal(r, i)
							en.addWriteThrough(fr, r, func(comp, sort, ref string) {
								addc(comp, sort, ref)
								if en.effSites != nil {
									en.effSites[f] = append(en.effSites[f], i)
								}
								if en.viaExternal == nil {
									en.viaExternal = map[ssa.Instruction]string{}
								}
								en.viaExternal[i] += " " + comp + "@" + funcKey(cf)
							})
						}
					}
				}
				switch callee := c.Value.(type) {
				case *ssa.Builtin:
					if (callee.Name() == "append" || callee.Name() == "copy") && !fresh[c.Args[0]] {
						if st, ok := c.Args[0].Type().Underlying().(*types.Slice); ok {
							et := st.Elem()
							if isStruct(et) {
								si := en.u.structInfo(et)
								for k := 0; !si.Opaque && k < si.St.NumFields(); k++ {
									addc(en.u.fieldComp(et, si.St.Field(k).Name()), en.u.sortOf(si.St.Field(k).Type()), "")
								}
							} else {
								addc(en.u.cellComp(et), en.u.sortOf(et), "")
							}
						}
					}
				case *ssa.Function:
					if en.effMemo[callee] != nil {
						n.addUnder(en.effMemo[callee], held[ins])
					}
				default:
					n.all = true // call of a function value
				}
			}
		}
	}
	return e.add(n) || changedSummary
}

// carriedRefs: the reference values (pointers, slices, maps) a value may carry to a callee:
// itself, what an interface or a converted value wraps, and what the result of a contract-less
// function of a dependency was built from (sort.Reverse(x) carries x).
func carriedRefs(v ssa.Value, en *Engine, seen map[ssa.Value]bool) []ssa.Value {
	if seen[v] {
		return nil
	}
	seen[v] = true
	switch x := v.(type) {
	case *ssa.MakeInterface:
		return carriedRefs(x.X, en, seen)
	case *ssa.ChangeType:
		return carriedRefs(x.X, en, seen)
	case *ssa.ChangeInterface:
		return carriedRefs(x.X, en, seen)
	case *ssa.Convert:
		return carriedRefs(x.X, en, seen)
	case *ssa.Phi:
		var out []ssa.Value
		for _, e := range x.Edges {
			out = append(out, carriedRefs(e, en, seen)...)
		}
		return out
	case *ssa.Call:
		if cf, ok := x.Call.Value.(*ssa.Function); ok && (cf.Blocks == nil || !en.inRepo(cf)) && en.cs.Funcs[funcKey(cf)] == nil {
			var out []ssa.Value
			for _, a := range x.Call.Args {
				out = append(out, carriedRefs(a, en, seen)...)
			}
			return out
		}
	}
	switch v.Type().Underlying().(type) {
	case *types.Pointer, *types.Slice, *types.Map:
		if c, ok := v.(*ssa.Const); ok && c.Value == nil {
			return nil
		}
		return []ssa.Value{v}
	}
	return nil
}

// addWriteThrough: the components a callee may write when it is handed the reference value r.
func (en *Engine) addWriteThrough(fr *Frame, r ssa.Value, addc func(comp, sort, ref string)) {
	switch t := r.Type().Underlying().(type) {
	case *types.Slice:
		et := t.Elem()
		if isStruct(et) {
			si := en.u.structInfo(et)
			for k := 0; !si.Opaque && k < si.St.NumFields(); k++ {
				addc(en.u.fieldComp(et, si.St.Field(k).Name()), en.u.sortOf(si.St.Field(k).Type()), "")
			}
		} else {
			addc(en.u.cellComp(et), en.u.sortOf(et), "")
		}
	case *types.Map:
		d, v := fr.mapComps(t)
		fr.mapCur(t, &Heap{ver: map[string]string{}, now: "now0"})
		en.mapSortMemo[d] = fr.vc.mapSorts[d]
		en.mapSortMemo[v] = fr.vc.mapSorts[v]
		addc(d, "MapDom", "")
		addc(v, "MapVal", "")
	case *types.Pointer:
		et := t.Elem()
		if isStruct(et) {
			si := en.u.structInfo(et)
			for k := 0; !si.Opaque && k < si.St.NumFields(); k++ {
				addc(en.u.fieldComp(et, si.St.Field(k).Name()), en.u.sortOf(si.St.Field(k).Type()), "")
			}
		} else if _, isArr := et.Underlying().(*types.Array); !isArr {
			addc(en.u.cellComp(et), en.u.sortOf(et), "")
		}
	}
}

// baseOf: the object an address belongs to (looking through field and index steps).
func baseOf(v ssa.Value) ssa.Value {
	for {
		switch a := v.(type) {
		case *ssa.FieldAddr:
			v = a.X
		case *ssa.IndexAddr:
			v = a.X
		default:
			return v
		}
	}
}

// freshValues: SSA values that certainly denote memory allocated by this activation
// (allocations, make, composite literals, and slices derived from them by append/slice/phi).
func freshValues(f *ssa.Function) map[ssa.Value]bool {
	// greatest fixpoint: start optimistic (cycles through phis of append chains are fresh when
	// everything that flows into them is), then remove what a non-fresh value flows into
	fresh := map[ssa.Value]bool{}
	for _, b := range f.Blocks {
		for _, ins := range b.Instrs {
			switch i := ins.(type) {
			case *ssa.Alloc, *ssa.MakeSlice, *ssa.MakeMap, *ssa.Slice, *ssa.Phi:
				fresh[i.(ssa.Value)] = true
			case *ssa.Call:
				if bi, ok := i.Call.Value.(*ssa.Builtin); ok && bi.Name() == "append" {
					fresh[i] = true
				}
			}
		}
	}
	isFresh := func(v ssa.Value) bool {
		if c, ok := v.(*ssa.Const); ok && c.Value == nil {
			return true // nil slice/map: nothing to write to
		}
		return fresh[v]
	}
	for changed := true; changed; {
		changed = false
		for v := range fresh {
			ok := true
			switch i := v.(type) {
			case *ssa.Slice:
				ok = isFresh(i.X)
			case *ssa.Phi:
				if _, isPtrOrSlice := i.Type().Underlying().(*types.Slice); !isPtrOrSlice {
					if _, isMap := i.Type().Underlying().(*types.Map); !isMap {
						if _, isPtr := i.Type().Underlying().(*types.Pointer); !isPtr {
							ok = false
						}
					}
				}
				for _, e := range i.Edges {
					if e != ssa.Value(i) && !isFresh(e) {
						ok = false
					}
				}
			case *ssa.Call:
				ok = isFresh(i.Call.Args[0])
			}
			if !ok {
				delete(fresh, v)
				changed = true
			}
		}
	}
	return fresh
}

type effResult struct {
	fn, name, what string
	ok             bool
	where          []string
	scanned, sites int
}

// checkEffects evaluates the static write-effect clauses of a contract (C19, C13, C18).
func (en *Engine) checkEffects(fn *ssa.Function, ct *FuncContract, prop string) []effResult {
	if en.effSites == nil {
		en.effSites = map[*ssa.Function][]ssa.Instruction{}
	}
	eff := en.effects(fn)
	scanned, sites := 0, 0
	for f := range en.effMemo {
		if en.effDone[f] {
			scanned++
			sites += len(en.effSites[f])
		}
	}
	key := funcKey(fn)
	var out []effResult
	// which functions write a component directly
	writers := func(comp string) []string {
		var ws []string
		for f := range en.effMemo {
			for _, ins := range en.effSites[f] {
				if en.viaGlobal[ins] == comp {
					p := en.fset.Position(ins.Pos())
					ws = append(ws, fmt.Sprintf("%s (%s:%d, through the package-level variable)", funcKey(f), strings.TrimPrefix(p.Filename, "/repo/"), p.Line))
					continue
				}
				if ext := en.viaExternal[ins]; ext != "" {
					for _, w := range strings.Fields(ext) {
						if j := strings.LastIndex(w, "@"); j > 0 && w[:j] == comp {
							p := en.fset.Position(ins.Pos())
							ws = append(ws, fmt.Sprintf("%s (%s:%d, handed to %s, a function of a dependency without contract)", funcKey(f), strings.TrimPrefix(p.Filename, "/repo/"), p.Line, w[j+1:]))
						}
					}
					continue
				}
				st, ok := ins.(*ssa.Store)
				if !ok {
					continue
				}
				c := ""
				if g, ok := baseOf(st.Addr).(*ssa.Global); ok {
					c = q("G " + g.Pkg.Pkg.Name() + "." + g.Name())
				} else {
					fr := &Frame{en: en, vc: newVC(en.u, en.cs, "eff", en.fset), fn: f, env: map[ssa.Value]Val{}}
					fr.addStoreByType(st.Addr, func(cc, s, r string) {
						if cc == comp {
							c = cc
						}
					})
				}
				if c == comp {
					p := en.fset.Position(ins.Pos())
					ws = append(ws, fmt.Sprintf("%s (%s:%d)", funcKey(f), strings.TrimPrefix(p.Filename, "/repo/"), p.Line))
				}
			}
		}
		sort.Strings(ws)
		return ws
	}
	for _, ec := range ct.Effects {
		if prop != "" && !(hasProp(ec.Props, prop) || (len(ec.Props) == 0 && hasProp(ct.Props, prop))) {
			continue
		}
		switch ec.Kind {
		case "noglobals":
			if eff.all {
				out = append(out, effResult{fn: key, name: key + "/effects.noglobals:unknown", what: "the write effects of " + key + " cannot be bounded (dynamic call)", ok: false})
				continue
			}
			gs := sortedKeys(eff.globals)
			var sk []string
			for g := range eff.serial {
				sk = append(sk, g)
			}
			sort.Strings(sk)
			for _, g := range sk {
				if eff.globals[g] {
					continue // also written outside any section: reported below
				}
				mu := eff.serial[g]
				why := "it is written under different mutexes"
				if mu != "?" {
					why = en.lockDiscipline(g, mu)
				}
				if why == "" {
					out = append(out, effResult{fn: key, name: key + "/effects.noglobals.serialised:" + g, what: "package-level variable " + g + " is written below " + key + " only while the package-level mutex " + mu + " is held, and every access to it in the repository is inside such a section (assumed: sync.Mutex gives mutual exclusion and happens-before; no callee releases its caller's lock; no call through a function value reaches the accessors)", ok: true, scanned: scanned, sites: sites})
				} else {
					out = append(out, effResult{fn: key, name: key + "/effects.noglobals:" + g, what: "package-level variable " + g + " is written below " + key + " and not serialised: " + why, ok: false})
				}
			}
			if len(gs) == 0 {
				out = append(out, effResult{fn: key, name: key + "/effects.noglobals", what: "no function reachable from " + key + " writes a package-level variable", ok: true, scanned: scanned, sites: sites})
			}
			for _, g := range gs {
				out = append(out, effResult{fn: key, name: key + "/effects.noglobals:" + g, what: "package-level variable " + g + " is written below " + key, ok: false, where: writers(g)})
			}
		case "onlywrites":
			// every inferred write effect must be one of the listed components (by substring)
			if eff.all {
				out = append(out, effResult{fn: key, name: key + "/effects.onlywrites:unknown", what: "the write effects of " + key + " cannot be bounded (dynamic call)", ok: false})
				continue
			}
			var bad []string
			for _, comp := range sortedKeys(eff.comps) {
				okc := false
				for _, a := range ec.Args {
					if strings.Contains(comp, a) {
						okc = true
					}
				}
				if !okc {
					bad = append(bad, comp)
				}
			}
			if len(bad) == 0 {
				out = append(out, effResult{fn: key, name: key + "/effects.onlywrites", what: "the only pre-existing memory written below " + key + " is: " + strings.Join(ec.Args, ", "), ok: true, scanned: scanned, sites: sites})
			}
			for _, c := range bad {
				out = append(out, effResult{fn: key, name: key + "/effects.onlywrites:" + c, what: "component " + c + " is written below " + key + " but is not in its frame", ok: false, where: writers(c)})
			}
		case "nocomp":
			// none of the listed components (ghost state such as stdout, by substring) is written
			if eff.all {
				out = append(out, effResult{fn: key, name: key + "/effects.nocomp:unknown", what: "the write effects of " + key + " cannot be bounded (dynamic call)", ok: false})
				continue
			}
			bad := []string{}
			for _, comp := range sortedKeys(eff.comps) {
				for _, a := range ec.Args {
					if strings.Contains(comp, a) {
						bad = append(bad, comp)
					}
				}
			}
			if len(bad) == 0 {
				out = append(out, effResult{fn: key, name: key + "/effects.nocomp(" + strings.Join(ec.Args, ",") + ")", what: "no function reachable from " + key + " writes " + strings.Join(ec.Args, ", "), ok: true, scanned: scanned, sites: sites})
			}
			for _, c := range bad {
				out = append(out, effResult{fn: key, name: key + "/effects.nocomp:" + c, what: c + " is written below " + key, ok: false, where: writers(c)})
			}
		case "nowrite":
			if eff.all {
				out = append(out, effResult{fn: key, name: key + "/effects.nowrite:unknown", what: "the write effects of " + key + " cannot be bounded (dynamic call)", ok: false})
				continue
			}
			bad := []string{}
			for _, comp := range sortedKeys(eff.comps) {
				for _, pkg := range ec.Args {
					if strings.HasPrefix(comp, "H_"+pkg+".") || strings.HasPrefix(comp, "E_"+pkg+".") || strings.HasPrefix(comp, "E_*"+pkg+".") || strings.HasPrefix(comp, "E_<>"+pkg+".") || (pkg == "int" && comp == "E_int") {
						bad = append(bad, comp)
					}
				}
			}
			if len(bad) == 0 {
				out = append(out, effResult{fn: key, name: key + "/effects.nowrite(" + strings.Join(ec.Args, ",") + ")", what: "no function reachable from " + key + " writes pre-existing memory of the types of " + strings.Join(ec.Args, ", "), ok: true, scanned: scanned, sites: sites})
			}
			for _, c := range bad {
				out = append(out, effResult{fn: key, name: key + "/effects.nowrite:" + c, what: "component " + c + " (memory that may belong to the compiled program) is written below " + key, ok: false, where: writers(c)})
			}
		}
	}
	return out
}

// globalDerived: SSA values read (directly or through fields, elements, slices, phis) from a
// package-level variable; a write through such a value mutates memory shared by all calls.
func (en *Engine) globalDerived(f *ssa.Function) map[ssa.Value]string {
	der := map[ssa.Value]string{}
	holds := map[*ssa.Alloc]string{} // local variables that hold a reference to a shared object
	for changed := true; changed; {
		changed = false
		set := func(v ssa.Value, g string) {
			if _, ok := der[v]; !ok && g != "" {
				der[v] = g
				changed = true
			}
		}
		for _, b := range f.Blocks {
			for _, ins := range b.Instrs {
				switch i := ins.(type) {
				case *ssa.UnOp:
					if g, ok := i.X.(*ssa.Global); ok && repoGlobal(g) {
						// only reference-like values can be written through
						switch i.Type().Underlying().(type) {
						case *types.Pointer, *types.Slice, *types.Map:
							set(i, g.Pkg.Pkg.Name()+"."+g.Name())
						}
					} else if g, ok := der[baseOf(i.X)]; ok {
						switch i.Type().Underlying().(type) {
						case *types.Pointer, *types.Slice, *types.Map, *types.Struct:
							set(i, g)
						}
					} else if a, isLocal := baseOf(i.X).(*ssa.Alloc); isLocal && holds[a] != "" {
						switch i.Type().Underlying().(type) {
						case *types.Pointer, *types.Slice, *types.Map, *types.Struct:
							set(i, holds[a])
						}
					}
				case *ssa.Store:
					// a shared reference stored into a local struct travels with the struct
					if g, ok := der[i.Val]; ok {
						if a, isLocal := baseOf(i.Addr).(*ssa.Alloc); isLocal && holds[a] == "" {
							holds[a] = g
							changed = true
						}
					}
				case *ssa.Field:
					switch i.Type().Underlying().(type) {
					case *types.Pointer, *types.Slice, *types.Map, *types.Struct:
						set(i, der[i.X])
					}
				case *ssa.Call:
					// the callee returns an object it read from a package-level variable
					if cf, ok := i.Call.Value.(*ssa.Function); ok && en.retGlobal[cf] != "" {
						switch i.Type().Underlying().(type) {
						case *types.Pointer, *types.Slice, *types.Map, *types.Struct:
							set(i, en.retGlobal[cf])
						}
					}
				case *ssa.FieldAddr:
					set(i, der[i.X])
				case *ssa.IndexAddr:
					set(i, der[i.X])
				case *ssa.Slice:
					set(i, der[i.X])
				case *ssa.Lookup:
					switch i.Type().Underlying().(type) {
					case *types.Pointer, *types.Slice, *types.Map:
						set(i, der[i.X])
					}
				case *ssa.Phi:
					for _, e := range i.Edges {
						set(i, der[e])
					}
				case *ssa.ChangeType:
					set(i, der[i.X])
				}
			}
		}
	}
	return der
}

// repoGlobal: the package-level variable belongs to the repository. Variables of dependencies
// (os.Stderr, ...) are the dependency's to synchronise: *os.File is safe for concurrent use.
func repoGlobal(g *ssa.Global) bool {
	return g.Pkg != nil && strings.HasPrefix(g.Pkg.Pkg.Path(), modPath)
}
