package main

import (
	"go/types"
	"sort"

	"golang.org/x/tools/go/ssa"
)

// Write-effect inference (DESIGN §2.6, C19): the set of heap components a function may write,
// by fixpoint over the SSA call graph. Stores are classified by the static type of the
// address (field of struct type / element of slice / cell), so the result is an
// over-approximation at component granularity. External functions contribute the components
// of their (assumed) modifies clauses, or nothing when they have no contract (listed).
type effectSet struct {
	comps      map[string]string // component -> element sort
	all        bool              // may write anything (dynamic call, unsupported construct)
	globals    map[string]bool   // package-level variables written (subset of comps, "G pkg.name")
	unknownExt map[string]bool
}

func newEffectSet() *effectSet {
	return &effectSet{comps: map[string]string{}, globals: map[string]bool{}, unknownExt: map[string]bool{}}
}

func (e *effectSet) add(o *effectSet) bool {
	ch := false
	for k, v := range o.comps {
		if _, ok := e.comps[k]; !ok {
			e.comps[k] = v
			ch = true
		}
	}
	for k := range o.globals {
		if !e.globals[k] {
			e.globals[k] = true
			ch = true
		}
	}
	for k := range o.unknownExt {
		if !e.unknownExt[k] {
			e.unknownExt[k] = true
			ch = true
		}
	}
	if o.all && !e.all {
		e.all = true
		ch = true
	}
	return ch
}

func (en *Engine) effects(fn *ssa.Function) *effectSet {
	if en.effMemo == nil {
		en.effMemo = map[*ssa.Function]*effectSet{}
	}
	if e, ok := en.effMemo[fn]; ok && en.effDone[fn] {
		return e
	}
	// collect the reachable functions, then iterate to a fixpoint
	var order []*ssa.Function
	seen := map[*ssa.Function]bool{}
	var visit func(f *ssa.Function)
	visit = func(f *ssa.Function) {
		if f == nil || seen[f] {
			return
		}
		seen[f] = true
		order = append(order, f)
		if en.effMemo[f] == nil {
			en.effMemo[f] = newEffectSet()
		}
		for _, c := range en.callees(f) {
			visit(c)
		}
	}
	visit(fn)
	for changed := true; changed; {
		changed = false
		for _, f := range order {
			if en.effectsStep(f) {
				changed = true
			}
		}
	}
	if en.effDone == nil {
		en.effDone = map[*ssa.Function]bool{}
	}
	for _, f := range order {
		en.effDone[f] = true
	}
	return en.effMemo[fn]
}

// callees of f as far as effects are concerned (contract functions stop the descent).
func (en *Engine) callees(f *ssa.Function) []*ssa.Function {
	if f.Blocks == nil || !en.inRepo(f) {
		return nil
	}
	if ct := en.cs.Funcs[funcKey(f)]; ct != nil && !ct.Inline && !ct.ModAll && !ct.ModInferred && (len(ct.Modifies) > 0 || ct.Trusted) {
		return nil
	}
	var out []*ssa.Function
	for _, b := range f.Blocks {
		for _, ins := range b.Instrs {
			call, ok := ins.(ssa.CallInstruction)
			if !ok {
				continue
			}
			c := call.Common()
			if c.IsInvoke() {
				out = append(out, en.implementations(c)...)
				continue
			}
			if callee, ok := c.Value.(*ssa.Function); ok {
				out = append(out, callee)
			}
		}
	}
	return out
}

func (en *Engine) implementations(c *ssa.CallCommon) []*ssa.Function {
	it := c.Value.Type().Underlying().(*types.Interface)
	var out []*ssa.Function
	bk := append([]string{}, en.u.boxedOrd...)
	sort.Strings(bk)
	for _, k := range bk {
		t := en.u.boxed[k]
		if !types.Implements(t, it) {
			continue
		}
		sel := en.prog.MethodSets.MethodSet(t).Lookup(c.Method.Pkg(), c.Method.Name())
		if sel == nil {
			continue
		}
		if fn := en.prog.MethodValue(sel); fn != nil {
			out = append(out, fn)
		}
	}
	return out
}

func (en *Engine) effectsStep(f *ssa.Function) bool {
	e := en.effMemo[f]
	n := newEffectSet()
	key := funcKey(f)
	ct := en.cs.Funcs[key]
	if ct != nil && !ct.Inline && !ct.ModAll && !ct.ModInferred && (len(ct.Modifies) > 0 || ct.Trusted || f.Blocks == nil) {
		for _, m := range ct.Modifies {
			ts, ok := en.lvalueComps(m, f)
			if !ok {
				n.all = true
				continue
			}
			for _, t := range ts {
				n.comps[t.comp] = t.sort
				if len(t.comp) > 3 && t.comp[:2] == "G_" {
					n.globals[t.comp] = true
				}
			}
		}
		return e.add(n)
	}
	if f.Blocks == nil || !en.inRepo(f) {
		if ct == nil {
			n.unknownExt[key] = true
		}
		return e.add(n)
	}
	fr := &Frame{en: en, vc: newVC(en.u, en.cs, "eff", en.fset), fn: f, env: map[ssa.Value]Val{}}
	addc := func(comp, sort, ref string) {
		n.comps[comp] = sort
		if len(comp) > 3 && comp[:2] == "G_" {
			n.globals[comp] = true
		}
	}
	for _, b := range f.Blocks {
		for _, ins := range b.Instrs {
			switch i := ins.(type) {
			case *ssa.Store:
				if g, ok := i.Addr.(*ssa.Global); ok {
					comp := q("G " + g.Pkg.Pkg.Name() + "." + g.Name())
					addc(comp, en.u.sortOf(g.Type().(*types.Pointer).Elem()), "")
					continue
				}
				fr.addStoreByType(i.Addr, addc)
			case *ssa.MapUpdate:
				mt := i.Map.Type().Underlying().(*types.Map)
				d, v := fr.mapComps(mt)
				fr.mapCur(mt, &Heap{ver: map[string]string{}, now: "now0"})
				en.mapSortMemo[d] = fr.vc.mapSorts[d]
				en.mapSortMemo[v] = fr.vc.mapSorts[v]
				addc(d, "MapDom", "")
				addc(v, "MapVal", "")
			case *ssa.Next:
				addc(q("E iterpos"), "Int", "")
			case *ssa.Go, *ssa.Defer:
				n.all = true
			case ssa.CallInstruction:
				c := i.Common()
				if c.IsInvoke() {
					for _, impl := range en.implementations(c) {
						if en.effMemo[impl] != nil {
							n.add(en.effMemo[impl])
						}
					}
					continue
				}
				switch callee := c.Value.(type) {
				case *ssa.Builtin:
					if callee.Name() == "append" || callee.Name() == "copy" {
						if st, ok := c.Args[0].Type().Underlying().(*types.Slice); ok {
							et := st.Elem()
							if isStruct(et) {
								si := en.u.structInfo(et)
								for k := 0; !si.Opaque && k < si.St.NumFields(); k++ {
									addc(en.u.fieldComp(et, si.St.Field(k).Name()), en.u.sortOf(si.St.Field(k).Type()), "")
								}
							} else {
								addc(en.u.cellComp(et), en.u.sortOf(et), "")
							}
						}
					}
				case *ssa.Function:
					if en.effMemo[callee] != nil {
						n.add(en.effMemo[callee])
					}
				default:
					n.all = true // call of a function value
				}
			}
		}
	}
	return e.add(n)
}
