package main

import (
	"fmt"
	"go/ast"
	"go/constant"
	"go/token"
	"go/types"
	"sort"
	"strconv"
	"strings"

	"golang.org/x/tools/go/ssa"
)

type Engine struct {
	prog        *ssa.Program
	u           *Universe
	cs          *Contracts
	fset        *token.FileSet
	funcs       map[string]*ssa.Function
	pkgs        map[string]*ssa.Package
	inlineMax   int
	docSamples  []string
	mapSortMemo map[string]string
	inst        map[string][]*ssa.Function // generic contract key -> instantiations used by the program
	effMemo     map[*ssa.Function]*effectSet
	effDone     map[*ssa.Function]bool
	effByClause map[string]string // repository functions the effect inference did not descend into: their write effect is taken from the contract
	retGlobal   map[*ssa.Function]string            // functions that return an object read from a package-level variable
	viaExternal map[ssa.Instruction]string          // calls of contract-less dependency functions that are handed pre-existing memory
	viaGlobal   map[ssa.Instruction]string          // write sites that go through a value read from a package-level variable
	effSites    map[*ssa.Function][]ssa.Instruction // write sites to pre-existing memory, per function
	renames     map[string]map[string]string // function -> local name in the contract -> its new name (pure renamings)
	tinfo       map[string]*types.Info              // type information per package path (function-local constants)
	activeProp  string                              // when set, only clauses serving this property are used (assumed and checked)
}

// funcKey gives the contract key of an SSA function.
func funcKey(fn *ssa.Function) string {
	if o := fn.Origin(); o != nil {
		fn = o
	}
	pkg := ""
	if fn.Pkg != nil {
		pkg = fn.Pkg.Pkg.Name()
	} else if fn.Object() != nil && fn.Object().Pkg() != nil {
		pkg = fn.Object().Pkg().Name()
	}
	if fn.Signature.Recv() != nil {
		rt := fn.Signature.Recv().Type()
		star := ""
		if p, ok := rt.(*types.Pointer); ok {
			star = "*"
			rt = p.Elem()
		}
		name := "?"
		if n, ok := rt.(*types.Named); ok {
			name = n.Obj().Name()
			if n.Obj().Pkg() != nil {
				pkg = n.Obj().Pkg().Name()
			}
		}
		return fmt.Sprintf("%s.(%s%s).%s", pkg, star, name, fn.Name())
	}
	return pkg + "." + fn.Name()
}

type blockState struct {
	reach string // reach condition at end of block
	heap  *Heap
}

type retSite struct {
	reach string
	heap  *Heap
	vals  []Val
	where string
	block *ssa.BasicBlock
	dup   bool // produced by tail duplication: reach is already a single path
}

type loopInfo struct {
	n       int
	header  *ssa.BasicBlock
	body    map[*ssa.BasicBlock]bool
	latches []*ssa.BasicBlock
	decAt   string // measure at header
	hdrEnv  map[ssa.Value]Val
	hdrHeap *Heap
}

// Frame is one activation (the function under verification, or an inlined callee).
type Frame struct {
	en         *Engine
	vc         *VC
	fn         *ssa.Function
	prefix     string
	env        map[ssa.Value]Val
	params     []Val
	entry      *Heap
	lets       map[string]Val
	ct         *FuncContract
	top        bool
	depth      int
	stack      []string
	end        map[*ssa.BasicBlock]*blockState
	loops      map[*ssa.BasicBlock]*loopInfo
	rets       []retSite
	props      []string
	callPath   string
	regs       map[*ssa.Alloc]*regCell
	frameOwner *Frame
	modCache   []modEntry
	modAll     bool
	noFrame    bool
	splitWhere []string
	inDup      bool
	callOrd    map[string]int             // call sites seen so far, per callee name (atcall callee#k)
	ghostHdr   map[string]*ssa.BasicBlock // loop ghost variable -> header of its loop
	dbgBlk     map[string][]*ssa.BasicBlock // the block of each entry of dbg (where the name was assigned)
	dbg        map[string][]ssa.Value     // source names of plain SSA values (from DebugRef), in execution order
}

func (f *Frame) where(pos token.Pos) string {
	if !pos.IsValid() {
		return ""
	}
	p := f.en.fset.Position(pos)
	return fmt.Sprintf("%s:%d", strings.TrimPrefix(p.Filename, "/repo/"), p.Line)
}

// typeFacts returns assumptions that hold for any value of Go type t.
func (en *Engine) typeFacts(t types.Type, e string, now string) string {
	switch tt := t.Underlying().(type) {
	case *types.Basic:
		switch tt.Kind() {
		case types.Uint8:
			return and(app("<=", "0", e), app("<", e, "256"))
		case types.Uint16:
			return and(app("<=", "0", e), app("<", e, "65536"))
		case types.Uint, types.Uint32, types.Uint64, types.Uintptr:
			return app("<=", "0", e)
		}
	case *types.Slice:
		return and(app("<=", "0", slo(e)), app("<=", "0", sln(e)), app("<=", sln(e), scp(e)),
			app("<=", "0", sref(e)), app("<", sref(e), now),
			implies(eq(sref(e), "0"), and(eq(sln(e), "0"), eq(scp(e), "0"))))
	case *types.Pointer:
		return and(app("<=", "0", pref(e)), app("<", pref(e), now), app("<=", "0", pidx(e)),
			implies(eq(pref(e), "0"), eq(e, nilPtr)))
	case *types.Map:
		return and(app("<=", "0", e), app("<", e, now))
	case *types.Interface:
		return en.closedWorld(t, tt, e)
	case *types.Struct:
		// a struct value: the facts of its reference-like fields (one level; repository types)
		if !en.u.isRepoType(t) {
			return "true"
		}
		si := en.u.structInfo(t)
		if si.Opaque {
			return "true"
		}
		var fs []string
		for k := 0; k < tt.NumFields(); k++ {
			switch tt.Field(k).Type().Underlying().(type) {
			case *types.Slice, *types.Pointer, *types.Map:
				fs = append(fs, en.typeFacts(tt.Field(k).Type(), app(en.u.selName(si, tt.Field(k).Name()), e), now))
			}
		}
		return and(fs...)
	}
	return "true"
}

func (en *Engine) mkVal(t types.Type, e string) Val {
	return Val{S: en.u.sortOf(t), E: e, T: t}
}

func (f *Frame) freshVal(prefix string, t types.Type, h *Heap) Val {
	if tup, ok := t.(*types.Tuple); ok {
		v := Val{S: "Tuple", T: t}
		for i := 0; i < tup.Len(); i++ {
			v.Tuple = append(v.Tuple, f.freshVal(fmt.Sprintf("%s.%d", prefix, i), tup.At(i).Type(), h))
		}
		return v
	}
	s := f.en.u.sortOf(t)
	n := f.vc.fresh(prefix, s)
	f.vc.assume(f.en.typeFacts(t, n, h.now))
	return Val{S: s, E: n, T: t}
}

// ---- running a function body ----

func (f *Frame) rpo() []*ssa.BasicBlock {
	seen := map[*ssa.BasicBlock]bool{}
	var post []*ssa.BasicBlock
	var dfs func(b *ssa.BasicBlock)
	dfs = func(b *ssa.BasicBlock) {
		seen[b] = true
		for _, s := range b.Succs {
			if !seen[s] {
				dfs(s)
			}
		}
		post = append(post, b)
	}
	dfs(f.fn.Blocks[0])
	for i, j := 0, len(post)-1; i < j; i, j = i+1, j-1 {
		post[i], post[j] = post[j], post[i]
	}
	return post
}

func (f *Frame) findLoops(order []*ssa.BasicBlock) {
	f.loops = map[*ssa.BasicBlock]*loopInfo{}
	reach := map[*ssa.BasicBlock]bool{}
	for _, b := range order {
		reach[b] = true
	}
	for _, b := range order {
		for _, s := range b.Succs {
			if s.Dominates(b) { // back edge b -> s
				li := f.loops[s]
				if li == nil {
					li = &loopInfo{header: s, body: map[*ssa.BasicBlock]bool{s: true}}
					f.loops[s] = li
				}
				li.latches = append(li.latches, b)
				// natural loop body
				var work []*ssa.BasicBlock
				if !li.body[b] {
					li.body[b] = true
					work = append(work, b)
				}
				for len(work) > 0 {
					x := work[len(work)-1]
					work = work[:len(work)-1]
					for _, p := range x.Preds {
						if !li.body[p] && reach[p] {
							li.body[p] = true
							work = append(work, p)
						}
					}
				}
			}
		}
	}
	// number loops in source order of header
	var hs []*ssa.BasicBlock
	for h := range f.loops {
		hs = append(hs, h)
	}
	sort.Slice(hs, func(i, j int) bool { return hs[i].Index < hs[j].Index })
	for i, h := range hs {
		f.loops[h].n = i + 1
	}
}

func (f *Frame) edgeCond(p, b *ssa.BasicBlock) string {
	st := f.end[p]
	if st == nil {
		return "false"
	}
	last := p.Instrs[len(p.Instrs)-1]
	if iff, ok := last.(*ssa.If); ok {
		c := f.val(iff.Cond).E
		if p.Succs[0] == b && p.Succs[1] == b {
			return st.reach
		}
		if p.Succs[0] == b {
			return and(st.reach, c)
		}
		return and(st.reach, not(c))
	}
	return st.reach
}

// mergeHeaps builds the heap at a join of the given predecessor edges.
func (f *Frame) mergeHeaps(conds []string, heaps []*Heap) *Heap {
	if len(heaps) == 1 {
		return heaps[0].clone()
	}
	res := &Heap{ver: map[string]string{}, gen: heaps[0].gen}
	sameGen := true
	for _, h := range heaps {
		if h.gen != heaps[0].gen {
			sameGen = false
		}
	}
	if !sameGen {
		// some path havocked everything: merge every component known so far by ite; components
		// first mentioned later start unknown in a new generation
		f.vc.nfresh++
		res.gen = f.vc.nfresh
		for _, k := range append([]string{}, f.vc.compOrd...) {
			es := f.vc.comps[k]
			if (es == "MapDom" || es == "MapVal") && f.vc.mapSorts[k] == "" {
				continue
			}
			vals := make([]string, len(heaps))
			for i, h := range heaps {
				vals[i] = f.vc.cur(h, k, es)
			}
			n := f.vc.fresh(strings.Trim(k, "|"), f.vc.fullSort(k, es))
			for i := range vals {
				f.vc.assume(implies(conds[i], eq(n, vals[i])))
			}
			res.ver[k] = n
		}
	} else {
		keys := map[string]bool{}
		for _, h := range heaps {
			for k := range h.ver {
				keys[k] = true
			}
		}
		for _, k := range sortedKeys(keys) {
			es := f.vc.comps[k]
			vals := make([]string, len(heaps))
			same := true
			for i, h := range heaps {
				vals[i] = f.vc.cur(h, k, es)
				if vals[i] != vals[0] {
					same = false
				}
			}
			if same {
				res.ver[k] = vals[0]
				continue
			}
			// cond_i ==> merged == version_i: on a given path congruence closure identifies the
			// merged array with that path's version (quantified facts then match directly)
			n := f.vc.fresh(strings.Trim(k, "|"), f.vc.fullSort(k, es))
			for i := range vals {
				f.vc.assume(implies(conds[i], eq(n, vals[i])))
			}
			res.ver[k] = n
		}
	}
	// now
	nows := make([]string, len(heaps))
	same := true
	for i, h := range heaps {
		nows[i] = h.now
		if nows[i] != nows[0] {
			same = false
		}
	}
	if same {
		res.now = nows[0]
	} else {
		t := nows[len(nows)-1]
		for i := len(nows) - 2; i >= 0; i-- {
			t = ite(conds[i], nows[i], t)
		}
		res.now = f.vc.define("now", "Int", t)
	}
	if !sameGen {
		res.genNow = res.now
	}
	return res
}

// run executes the function body symbolically. reach0/heap0 describe the entry.
func (f *Frame) run(reach0 string, heap0 *Heap) {
	order := f.rpo()
	f.findLoops(order)
	if f.depth == 0 {
		f.vc.reach = map[int]map[int]bool{}
		// forward reachability ignoring back edges, in reverse RPO
		for i := len(order) - 1; i >= 0; i-- {
			b := order[i]
			m := map[int]bool{b.Index: true}
			for _, s := range b.Succs {
				if s.Dominates(b) {
					continue // back edge
				}
				for k := range f.vc.reach[s.Index] {
					m[k] = true
				}
			}
			f.vc.reach[b.Index] = m
		}
	}
	f.end = map[*ssa.BasicBlock]*blockState{}
	if f.regs == nil {
		f.regs = map[*ssa.Alloc]*regCell{}
	}
	for bi, b := range order {
		var reach string
		var heap *Heap
		if f.depth == 0 {
			f.vc.curBlk = b.Index
		}
		if bi > 0 && f.tailDuplicate(b) {
			continue
		}
		if bi == 0 {
			reach, heap = reach0, heap0.clone()
		} else {
			li := f.loops[b]
			var conds []string
			var heaps []*Heap
			var preds []*ssa.BasicBlock
			for _, p := range b.Preds {
				if f.end[p] == nil {
					continue // back edge or unreachable
				}
				if li != nil && li.body[p] {
					continue
				}
				conds = append(conds, f.edgeCond(p, b))
				heaps = append(heaps, f.end[p].heap)
				preds = append(preds, p)
			}
			if len(preds) == 0 {
				continue
			}
			r := or(conds...)
			reach = f.vc.define(fmt.Sprintf("%sR.b%d", f.prefix, b.Index), "Bool", r)
			heap = f.mergeHeaps(conds, heaps)
			if li == nil {
				// phis
				for _, ins := range b.Instrs {
					phi, ok := ins.(*ssa.Phi)
					if !ok {
						break
					}
					f.env[phi] = f.mergePhi(phi, b, preds, conds)
				}
			} else {
				f.enterLoop(li, b, preds, conds, heaps, reach, heap)
			}
		}
		f.execBlock(b, reach, heap)
		// back-edge obligations
		for _, s := range b.Succs {
			if li := f.loops[s]; li != nil && li.body[b] && s.Dominates(b) {
				f.backEdge(li, b)
			}
		}
	}
}

func (f *Frame) mergePhi(phi *ssa.Phi, b *ssa.BasicBlock, preds []*ssa.BasicBlock, conds []string) Val {
	var vals []Val
	for _, p := range preds {
		for i, bp := range b.Preds {
			if bp == p {
				vals = append(vals, f.val(phi.Edges[i]))
				break
			}
		}
	}
	res := vals[len(vals)-1]
	same := true
	for _, v := range vals {
		if v.E != vals[0].E {
			same = false
		}
	}
	if same {
		return vals[0]
	}
	if res.S == "Tuple" {
		f.vc.errorf("phi of tuple unsupported in %s", f.fn.Name())
		return res
	}
	t := res.E
	for i := len(vals) - 2; i >= 0; i-- {
		t = ite(conds[i], vals[i].E, t)
	}
	name := phi.Comment
	if name == "" {
		name = phi.Name()
	}
	n := f.vc.define(f.prefix+name, res.S, t)
	return Val{S: res.S, E: n, T: phi.Type()}
}

// ---- instruction execution ----

func (f *Frame) val(v ssa.Value) Val {
	if x, ok := f.env[v]; ok {
		return x
	}
	switch c := v.(type) {
	case *ssa.Const:
		return f.constVal(c)
	case *ssa.Global:
		comp := q("G " + c.Pkg.Pkg.Name() + "." + c.Name())
		et := c.Type().(*types.Pointer).Elem()
		base := mkptr(num(-int64(f.en.u.fldCode(comp))-1), "0", "0")
		return Val{S: "Ptr", E: base, T: c.Type(), Addr: &Addr{Base: base, Comp: comp, CompT: et, LeafT: et}}
	case *ssa.Function:
		return Val{S: "Fn", E: q("fn " + funcKey(c)), T: c.Type()}
	case *ssa.Builtin:
		return Val{S: "Fn", E: "fnnil", T: c.Type()}
	}
	f.vc.errorf("%s: value %s (%T) used before definition", f.fn.Name(), v.Name(), v)
	return f.freshVal("undef", v.Type(), &Heap{now: "0"})
}

func (f *Frame) constVal(c *ssa.Const) Val {
	t := c.Type()
	s := f.en.u.sortOf(t)
	if c.Value == nil {
		return Val{S: s, E: f.en.u.zeroOf(t), T: t}
	}
	switch c.Value.Kind() {
	case constant.Bool:
		if constant.BoolVal(c.Value) {
			return Val{S: "Bool", E: "true", T: t}
		}
		return Val{S: "Bool", E: "false", T: t}
	case constant.Int:
		if n, ok := constant.Int64Val(c.Value); ok {
			return Val{S: "Int", E: num(n), T: t}
		}
		return Val{S: "Int", E: c.Value.ExactString(), T: t}
	case constant.String:
		return Val{S: "Str", E: f.vc.literal(constant.StringVal(c.Value)), T: t}
	case constant.Float:
		return Val{S: "Real", E: "0.0", T: t}
	}
	f.vc.errorf("unsupported constant %v", c)
	return Val{S: s, E: f.en.u.zeroOf(t), T: t}
}

// ---- memory access ----

// elemLoc describes where values of pointer type p live when only the Ptr term is known.
func (f *Frame) derefAddr(p Val) *Addr {
	if p.Addr != nil {
		return p.Addr
	}
	pt, ok := p.T.Underlying().(*types.Pointer)
	if !ok {
		f.vc.errorf("deref of non-pointer %v", p.T)
		return &Addr{Base: p.E, Comp: q("E ?"), CompT: types.Typ[types.Int], LeafT: types.Typ[types.Int]}
	}
	et := pt.Elem()
	return &Addr{Base: p.E, Comp: f.en.u.cellComp(et), CompT: et, LeafT: et}
}

// candidateComps lists (component, elemtype) pairs a pointer of elem type et may designate
// besides its own cell component: escaping struct fields of identical type.
func (f *Frame) fieldCandidates(et types.Type) []string {
	var out []string
	for comp := range f.en.u.escFields {
		if f.en.u.escFieldType[comp] != nil && types.Identical(f.en.u.escFieldType[comp], et) {
			out = append(out, comp)
		}
	}
	sort.Strings(out)
	return out
}

func (f *Frame) loadStructAt(t types.Type, base string, h *Heap) string {
	si := f.en.u.structInfo(t)
	if si.Opaque || si.St.NumFields() == 0 {
		return f.en.u.mkName(si)
	}
	args := []string{}
	for i := 0; i < si.St.NumFields(); i++ {
		fl := si.St.Field(i)
		comp := f.en.u.fieldComp(t, fl.Name())
		args = append(args, sel2(f.vc.cur(h, comp, f.en.u.sortOf(fl.Type())), pref(base), pidx(base)))
	}
	return app(f.en.u.mkName(si), args...)
}

func (f *Frame) storeStructAt(t types.Type, base, v string, h *Heap) {
	si := f.en.u.structInfo(t)
	if si.Opaque {
		return
	}
	for i := 0; i < si.St.NumFields(); i++ {
		fl := si.St.Field(i)
		comp := f.en.u.fieldComp(t, fl.Name())
		es := f.en.u.sortOf(fl.Type())
		f.vc.setComp(h, comp, es, store2(f.vc.cur(h, comp, es), pref(base), pidx(base), app(f.en.u.selName(si, fl.Name()), v)))
	}
}

func (f *Frame) selPath(x string, path []pathStep) string {
	for _, st := range path {
		si := f.en.u.structInfo(st.structT)
		x = app(f.en.u.selName(si, si.St.Field(st.field).Name()), x)
	}
	return x
}

// updPath returns x with the location designated by path replaced by v.
func (f *Frame) updPath(x string, path []pathStep, v string) string {
	if len(path) == 0 {
		return v
	}
	st := path[0]
	si := f.en.u.structInfo(st.structT)
	args := []string{}
	for i := 0; i < si.St.NumFields(); i++ {
		fx := app(f.en.u.selName(si, si.St.Field(i).Name()), x)
		if i == st.field {
			args = append(args, f.updPath(fx, path[1:], v))
		} else {
			args = append(args, fx)
		}
	}
	return app(f.en.u.mkName(si), args...)
}

func (f *Frame) load(p Val, h *Heap, reach string, pos token.Pos) Val {
	a := f.derefAddr(p)
	if a.Register != nil {
		return a.Register.cur
	}
	f.nilCheck(a.Base, reach, pos)
	lt := a.LeafT
	if p.Addr == nil && isStruct(lt) {
		// whole-struct load through a plain pointer
		return f.en.mkVal(lt, f.vc.define(f.prefix+"ld", f.en.u.sortOf(lt), f.loadStructAt(lt, a.Base, h)))
	}
	if p.Addr != nil && len(a.Path) == 0 && isStruct(a.CompT) && a.Comp == f.en.u.cellComp(a.CompT) {
		return f.en.mkVal(lt, f.vc.define(f.prefix+"ld", f.en.u.sortOf(lt), f.loadStructAt(lt, a.Base, h)))
	}
	es := f.en.u.sortOf(a.CompT)
	t := f.selPath(sel2(f.vc.cur(h, a.Comp, es), pref(a.Base), pidx(a.Base)), a.Path)
	if p.Addr == nil {
		// pointer of unknown provenance: may designate an escaping field
		for _, comp := range f.fieldCandidates(lt) {
			alt := sel2(f.vc.cur(h, comp, f.en.u.sortOf(lt)), pref(a.Base), pidx(a.Base))
			t = ite(eq(pfld(a.Base), num(int64(f.en.u.fldCode(comp)))), alt, t)
		}
	}
	v := f.en.mkVal(lt, f.vc.define(f.prefix+"ld", f.en.u.sortOf(lt), t))
	f.vc.assume(implies(reach, f.en.typeFacts(lt, v.E, f.vc.boundOf(h, a.Comp))))
	f.sigRead(a, v, reach, pos)
	return v
}

func (f *Frame) store(p Val, v Val, h *Heap, reach string, pos token.Pos) {
	a := f.derefAddr(p)
	if a.Register != nil {
		a.Register.cur = v
		return
	}
	f.nilCheck(a.Base, reach, pos)
	f.frameCheck(a, h, reach, pos)
	lt := a.LeafT
	if (p.Addr == nil && isStruct(lt)) || (p.Addr != nil && len(a.Path) == 0 && isStruct(a.CompT) && a.Comp == f.en.u.cellComp(a.CompT)) {
		f.storeStructAt(lt, a.Base, v.E, h)
		return
	}
	es := f.en.u.sortOf(a.CompT)
	cur := f.vc.cur(h, a.Comp, es)
	if p.Addr == nil {
		cands := f.fieldCandidates(lt)
		if len(cands) > 0 {
			isOwn := "true"
			for _, comp := range cands {
				code := num(int64(f.en.u.fldCode(comp)))
				c := f.vc.cur(h, comp, f.en.u.sortOf(lt))
				hit := eq(pfld(a.Base), code)
				f.vc.setComp(h, comp, f.en.u.sortOf(lt), ite(hit, store2(c, pref(a.Base), pidx(a.Base), v.E), c))
				isOwn = and(isOwn, not(hit))
			}
			f.vc.setComp(h, a.Comp, es, ite(isOwn, store2(cur, pref(a.Base), pidx(a.Base), v.E), cur))
			return
		}
	}
	nv := v.E
	if len(a.Path) > 0 {
		nv = f.updPath(sel2(cur, pref(a.Base), pidx(a.Base)), a.Path, v.E)
	}
	f.vc.setComp(h, a.Comp, es, store2(cur, pref(a.Base), pidx(a.Base), nv))
}

func (f *Frame) nilCheck(base, reach string, pos token.Pos) {
	if strings.HasPrefix(base, "(mkptr ") {
		r := pref(base)
		if !strings.HasPrefix(r, "(") || strings.HasPrefix(r, "(- ") {
			// freshly allocated or global: never nil
			if strings.Contains(r, "ref!") || strings.HasPrefix(r, "(- ") {
				return
			}
		}
	}
	f.check("nopanic.nil", implies(reach, not(eq(pref(base), "0"))), pos, "nil pointer dereference")
}

func (f *Frame) check(kind, goal string, pos token.Pos, src string) {
	if goal == "true" {
		return
	}
	name := f.callPath + f.vc.siteName(kind)
	f.vc.oblige(name, strings.SplitN(kind, ".", 2)[0], goal, f.props, f.where(pos), src)
}

func (f *Frame) execBlock(b *ssa.BasicBlock, reach string, heap *Heap) {
	if f.depth == 0 {
		f.vc.curBlk = b.Index
	}
	for _, ins := range b.Instrs {
		if _, ok := ins.(*ssa.Phi); ok {
			continue
		}
		reach = f.execInstr(ins, reach, heap)
	}
	f.end[b] = &blockState{reach: reach, heap: heap}
}

func isIntLike(t types.Type) bool {
	b, ok := t.Underlying().(*types.Basic)
	return ok && b.Info()&types.IsInteger != 0
}

func (f *Frame) execInstr(ins ssa.Instruction, reach string, h *Heap) string {
	u := f.en.u
	vc := f.vc
	switch i := ins.(type) {
	case *ssa.DebugRef:
		if id, ok := i.Expr.(*ast.Ident); ok && !i.IsAddr {
			if o := i.Object(); o != nil && o.Pkg() != nil && o.Parent() == o.Pkg().Scope() {
				break // a package-level variable is not a local name
			}
			if f.dbg == nil {
				f.dbg = map[string][]ssa.Value{}
			}
			f.dbg[id.Name] = append(f.dbg[id.Name], i.X)
			if f.dbgBlk == nil {
				f.dbgBlk = map[string][]*ssa.BasicBlock{}
			}
			f.dbgBlk[id.Name] = append(f.dbgBlk[id.Name], i.Block())
		}
	case *ssa.Alloc:
		et := i.Type().(*types.Pointer).Elem()
		f.env[i] = f.alloc(et, i.Comment, reach, h)
	case *ssa.FieldAddr:
		x := f.val(i.X)
		st := i.X.Type().Underlying().(*types.Pointer).Elem()
		sinfo := u.structInfo(st)
		var fname string
		var ft types.Type
		if sinfo.Opaque {
			stt := st.Underlying().(*types.Struct)
			fname, ft = stt.Field(i.Field).Name(), stt.Field(i.Field).Type()
		} else {
			fname, ft = sinfo.St.Field(i.Field).Name(), sinfo.St.Field(i.Field).Type()
		}
		var a *Addr
		if x.Addr != nil && !(len(x.Addr.Path) == 0 && x.Addr.Comp == u.cellComp(x.Addr.CompT) && isStruct(x.Addr.CompT)) {
			// nested field of a struct stored by value inside a component
			a = &Addr{Base: x.Addr.Base, Comp: x.Addr.Comp, CompT: x.Addr.CompT, LeafT: ft, Register: nil,
				Path: append(append([]pathStep{}, x.Addr.Path...), pathStep{st, i.Field})}
			if x.Addr.Register != nil {
				f.vc.errorf("%s: field address of register struct", f.fn.Name())
			}
			f.env[i] = Val{S: "Ptr", E: "(mkptr (- 999) 0 0)", T: i.Type(), Addr: a}
		} else {
			comp := u.fieldComp(st, fname)
			a = &Addr{Base: x.E, Comp: comp, CompT: ft, LeafT: ft}
			pt := mkptr(pref(x.E), pidx(x.E), num(int64(u.fldCode(comp))))
			f.env[i] = Val{S: "Ptr", E: pt, T: i.Type(), Addr: a}
		}
	case *ssa.IndexAddr:
		x := f.val(i.X)
		idx := f.val(i.Index)
		switch xt := i.X.Type().Underlying().(type) {
		case *types.Slice:
			f.check("nopanic.index", implies(reach, and(app("<=", "0", idx.E), app("<", idx.E, sln(x.E)))), i.Pos(), "index out of range")
			reach = f.strengthen(reach, and(app("<=", "0", idx.E), app("<", idx.E, sln(x.E))))
			base := mkptr(sref(x.E), vc.define(f.prefix+"ix", "Int", app("+", slo(x.E), idx.E)), "0")
			f.env[i] = f.elemPtr(i.Type(), xt.Elem(), base)
		case *types.Pointer: // pointer to array
			at := xt.Elem().Underlying().(*types.Array)
			f.check("nopanic.index", implies(reach, and(app("<=", "0", idx.E), app("<", idx.E, num(at.Len())))), i.Pos(), "index out of range")
			base := mkptr(pref(x.E), app("+", pidx(x.E), idx.E), "0")
			f.env[i] = f.elemPtr(i.Type(), at.Elem(), base)
		default:
			vc.errorf("IndexAddr on %v", i.X.Type())
		}
	case *ssa.UnOp:
		x := f.val(i.X)
		switch i.Op {
		case token.MUL:
			f.env[i] = f.load(x, h, reach, i.Pos())
		case token.NOT:
			f.env[i] = Val{S: "Bool", E: not(x.E), T: i.Type()}
		case token.SUB:
			f.env[i] = Val{S: "Int", E: app("-", x.E), T: i.Type()}
		default:
			vc.errorf("unsupported unary %v", i.Op)
			f.env[i] = f.freshVal("unop", i.Type(), h)
		}
	case *ssa.Store:
		f.store(f.val(i.Addr), f.val(i.Val), h, reach, i.Pos())
	case *ssa.BinOp:
		f.env[i] = f.binop(i, reach, h)
	case *ssa.Phi:
	case *ssa.If, *ssa.Jump:
	case *ssa.Return:
		var vals []Val
		for _, r := range i.Results {
			vals = append(vals, f.val(r))
		}
		f.rets = append(f.rets, retSite{reach: reach, heap: h.clone(), vals: vals, where: f.where(i.Pos()), block: i.Block(), dup: f.inDup})
	case *ssa.Panic:
		f.check("nopanic.panic", not(reach), i.Pos(), "explicit panic reachable")
		reach = "false"
	case *ssa.Call:
		v, r2 := f.call(i, reach, h)
		f.env[i] = v
		reach = r2
	case *ssa.MakeInterface:
		x := f.val(i.X)
		u.registerBoxed(i.X.Type())
		f.env[i] = Val{S: "Iface", E: app(u.boxName(i.X.Type()), x.E), T: i.Type()}
	case *ssa.ChangeInterface:
		x := f.val(i.X)
		f.env[i] = Val{S: "Iface", E: x.E, T: i.Type()}
	case *ssa.ChangeType:
		x := f.val(i.X)
		x.T = i.Type()
		f.env[i] = x
	case *ssa.Convert:
		f.env[i] = f.convert(i, reach, h)
	case *ssa.TypeAssert:
		x := f.val(i.X)
		f.env[i] = f.typeAssert(i, x, reach, h)
		if !i.CommaOk {
			if _, isIface := i.AssertedType.Underlying().(*types.Interface); !isIface {
				reach = f.strengthen(reach, app("(_ is "+u.boxName(i.AssertedType)+")", x.E))
			}
		}
	case *ssa.Extract:
		t := f.val(i.Tuple)
		if i.Index < len(t.Tuple) {
			f.env[i] = t.Tuple[i.Index]
		} else {
			vc.errorf("extract from non-tuple")
			f.env[i] = f.freshVal("ext", i.Type(), h)
		}
	case *ssa.Index:
		x := f.val(i.X)
		k := f.val(i.Index)
		if x.S == "Str" {
			ok := and(app("<=", "0", k.E), app("<", k.E, app("slen", x.E)))
			f.check("nopanic.index", implies(reach, ok), i.Pos(), "string index out of range")
			reach = f.strengthen(reach, ok)
			v := vc.define(f.prefix+"ch", "Int", app("sat", x.E, k.E))
			vc.assume(and(app("<=", "0", v), app("<", v, "256")))
			f.env[i] = Val{S: "Int", E: v, T: i.Type()}
		} else {
			vc.errorf("%s: index of array value unsupported", f.fn.Name())
			f.env[i] = f.freshVal("index", i.Type(), h)
		}
	case *ssa.Field:
		x := f.val(i.X)
		si := u.structInfo(i.X.Type())
		fl := si.St.Field(i.Field)
		f.env[i] = f.en.mkVal(fl.Type(), app(u.selName(si, fl.Name()), x.E))
	case *ssa.Slice:
		f.env[i], reach = f.sliceOp(i, reach, h)
	case *ssa.MakeSlice:
		n := f.val(i.Len)
		c := f.val(i.Cap)
		et := i.Type().Underlying().(*types.Slice).Elem()
		f.check("nopanic.makeslice", implies(reach, and(app("<=", "0", n.E), app("<=", n.E, c.E))), i.Pos(), "makeslice: len out of range")
		ref := f.newRef(h)
		f.zeroRow(et, ref, h)
		f.env[i] = Val{S: "Slice", E: mkslice(ref, "0", n.E, c.E), T: i.Type()}
	case *ssa.MakeMap:
		ref := f.newRef(h)
		mt := i.Type().Underlying().(*types.Map)
		dom, _ := f.mapComps(mt)
		f.mapCur(mt, h)
		vc.setComp(h, dom, "MapDom", app("store", vc.cur(h, dom, "MapDom"), ref, f.emptyDom(mt)))
		f.env[i] = Val{S: "Int", E: ref, T: i.Type()}
	case *ssa.MapUpdate:
		m := f.val(i.Map)
		k := f.val(i.Key)
		v := f.val(i.Value)
		mt := i.Map.Type().Underlying().(*types.Map)
		f.check("nopanic.nilmap", implies(reach, not(eq(m.E, "0"))), i.Pos(), "assignment to entry in nil map")
		f.frameCheckMap(m, h, reach, i.Pos())
		f.mapStore(mt, m.E, k.E, v.E, h)
	case *ssa.Lookup:
		f.env[i] = f.lookup(i, reach, h)
	case *ssa.Range:
		f.env[i] = f.rangeInit(i, reach, h)
	case *ssa.Next:
		f.env[i] = f.rangeNext(i, reach, h)
	case *ssa.RunDefers:
	case *ssa.Defer:
		// a deferred call of a dependency that has no contract is, like a direct one, assumed to
		// write no modelled memory; its result is unused. Anything else is outside the subset.
		if cal := i.Call.StaticCallee(); cal != nil && !f.en.inRepo(cal) {
			// a deferred call of a dependency (Close, Unlock, StopCPUProfile): it runs when the
			// function returns; its effect on modelled memory is not modelled (listed)
			f.vc.assumed = append(f.vc.assumed, "deferred call of a dependency, effect at function exit not modelled: "+funcKey(cal))
		} else {
			vc.errorf("%s: instruction %T outside the supported subset", f.fn.Name(), ins)
		}
	case *ssa.MakeClosure, *ssa.Go, *ssa.Send, *ssa.Select:
		vc.errorf("%s: instruction %T outside the supported subset", f.fn.Name(), ins)
		if v, ok := ins.(ssa.Value); ok {
			f.env[v] = f.freshVal("unsupported", v.Type(), h)
		}
	default:
		vc.errorf("%s: unsupported instruction %T: %v", f.fn.Name(), ins, ins)
		if v, ok := ins.(ssa.Value); ok {
			f.env[v] = f.freshVal("unsupported", v.Type(), h)
		}
	}
	return reach
}

func (f *Frame) strengthen(reach, cond string) string {
	if cond == "true" {
		return reach
	}
	return f.vc.define(f.prefix+"R", "Bool", and(reach, cond))
}

func (f *Frame) elemPtr(ptrT types.Type, et types.Type, base string) Val {
	if isStruct(et) {
		return Val{S: "Ptr", E: base, T: ptrT}
	}
	return Val{S: "Ptr", E: base, T: ptrT, Addr: &Addr{Base: base, Comp: f.en.u.cellComp(et), CompT: et, LeafT: et}}
}

func (f *Frame) newRef(h *Heap) string {
	ref := f.vc.fresh(f.prefix+"ref", "Int")
	f.vc.assume(eq(ref, h.now))
	h.now = f.vc.define(f.prefix+"now", "Int", app("+", ref, "1"))
	return ref
}

// zeroRow initialises all cells of a fresh backing array to the zero value.
func (f *Frame) zeroRow(et types.Type, ref string, h *Heap) {
	u := f.en.u
	if isStruct(et) {
		si := u.structInfo(et)
		if si.Opaque {
			return
		}
		for i := 0; i < si.St.NumFields(); i++ {
			fl := si.St.Field(i)
			comp := u.fieldComp(et, fl.Name())
			es := u.sortOf(fl.Type())
			f.vc.setComp(h, comp, es, app("store", f.vc.cur(h, comp, es), ref, f.constRow(es, u.zeroOf(fl.Type()))))
		}
		return
	}
	comp := u.cellComp(et)
	es := u.sortOf(et)
	f.vc.setComp(h, comp, es, app("store", f.vc.cur(h, comp, es), ref, f.constRow(es, u.zeroOf(et))))
}

func (f *Frame) alloc(et types.Type, comment, reach string, h *Heap) Val {
	ref := f.newRef(h)
	base := mkptr(ref, "0", "0")
	pt := types.NewPointer(et)
	if at, ok := et.Underlying().(*types.Array); ok {
		f.zeroRow(at.Elem(), ref, h)
		return Val{S: "Ptr", E: base, T: pt}
	}
	f.zeroRow(et, ref, h)
	if isStruct(et) {
		return Val{S: "Ptr", E: base, T: pt, Addr: &Addr{Base: base, Comp: f.en.u.cellComp(et), CompT: et, LeafT: et}}
	}
	return Val{S: "Ptr", E: base, T: pt, Addr: &Addr{Base: base, Comp: f.en.u.cellComp(et), CompT: et, LeafT: et}}
}

func (f *Frame) binop(i *ssa.BinOp, reach string, h *Heap) Val {
	x, y := f.val(i.X), f.val(i.Y)
	t := i.Type()
	bv := func(e string) Val { return Val{S: "Bool", E: e, T: t} }
	iv := func(e string) Val {
		return Val{S: "Int", E: f.vc.define(f.prefix+i.Name(), "Int", e), T: t}
	}
	if x.S == "Str" {
		switch i.Op {
		case token.ADD:
			return Val{S: "Str", E: f.vc.define(f.prefix+i.Name(), "Str", app("scat", x.E, y.E)), T: t}
		case token.EQL:
			return bv(eq(x.E, y.E))
		case token.NEQ:
			return bv(not(eq(x.E, y.E)))
		case token.LEQ:
			return bv(app("sle", x.E, y.E))
		case token.GEQ:
			return bv(app("sle", y.E, x.E))
		case token.LSS:
			return bv(not(app("sle", y.E, x.E)))
		case token.GTR:
			return bv(not(app("sle", x.E, y.E)))
		}
	}
	switch i.Op {
	case token.EQL, token.NEQ:
		e := eq(x.E, y.E)
		if x.S == "Ptr" && y.E == nilPtr {
			e = eq(pref(x.E), "0")
		} else if y.S == "Ptr" && x.E == nilPtr {
			e = eq(pref(y.E), "0")
		} else if x.S == "Slice" && y.E == nilSlice {
			e = eq(sref(x.E), "0")
		} else if y.S == "Slice" && x.E == nilSlice {
			e = eq(sref(y.E), "0")
		}
		if i.Op == token.NEQ {
			e = not(e)
		}
		return bv(e)
	}
	if x.S == "Bool" {
		switch i.Op {
		case token.LAND, token.AND:
			return bv(and(x.E, y.E))
		case token.LOR, token.OR:
			return bv(or(x.E, y.E))
		}
	}
	if x.S == "Int" {
		switch i.Op {
		case token.ADD:
			return iv(app("+", x.E, y.E))
		case token.SUB:
			return iv(app("-", x.E, y.E))
		case token.MUL:
			return iv(app("*", x.E, y.E))
		case token.QUO:
			f.check("nopanic.div", implies(reach, not(eq(y.E, "0"))), i.Pos(), "integer divide by zero")
			return iv(goDiv(x.E, y.E))
		case token.REM:
			f.check("nopanic.div", implies(reach, not(eq(y.E, "0"))), i.Pos(), "integer divide by zero")
			return iv(goMod(x.E, y.E))
		case token.LSS:
			return bv(app("<", x.E, y.E))
		case token.LEQ:
			return bv(app("<=", x.E, y.E))
		case token.GTR:
			return bv(app(">", x.E, y.E))
		case token.GEQ:
			return bv(app(">=", x.E, y.E))
		case token.OR, token.AND, token.SHL, token.SHR:
			// bit operations with a small non-negative constant, over a non-negative operand:
			// bit b of x is (x div 2^b) mod 2. Anything else is an uninterpreted value.
			a, c := x, y
			if _, err := strconv.ParseInt(c.E, 10, 64); err != nil && (i.Op == token.OR || i.Op == token.AND) {
				a, c = y, x
			}
			if k, err := strconv.ParseInt(c.E, 10, 64); err == nil && k >= 0 && k < 1<<20 {
				bit := func(b int) string { return goMod(goDiv(a.E, num(1<<uint(b))), "2") }
				var terms []string
				switch i.Op {
				case token.OR:
					terms = append(terms, a.E)
					for b := 0; b < 20; b++ {
						if k&(1<<uint(b)) != 0 {
							terms = append(terms, ite(eq(bit(b), "0"), num(1<<uint(b)), "0"))
						}
					}
				case token.AND:
					terms = append(terms, "0")
					for b := 0; b < 20; b++ {
						if k&(1<<uint(b)) != 0 {
							terms = append(terms, app("*", num(1<<uint(b)), bit(b)))
						}
					}
				case token.SHL:
					if k < 40 && a.E == x.E {
						terms = append(terms, app("*", a.E, num(1<<uint(k))))
					}
				case token.SHR:
					if k < 40 && a.E == x.E {
						terms = append(terms, goDiv(a.E, num(1<<uint(k))))
					}
				}
				if len(terms) > 0 {
					exact := terms[0]
					if len(terms) > 1 {
						exact = app("+", terms...)
					}
					free := f.vc.fresh(f.prefix+"bitop", "Int")
					return iv(ite(app(">=", a.E, "0"), exact, free))
				}
			}
			return f.freshVal("bitop", t, h)
		}
	}
	f.vc.errorf("%s: unsupported binop %v on %s", f.fn.Name(), i.Op, x.S)
	return f.freshVal("binop", t, h)
}

func (f *Frame) convert(i *ssa.Convert, reach string, h *Heap) Val {
	x := f.val(i.X)
	from, to := i.X.Type().Underlying(), i.Type().Underlying()
	vc := f.vc
	if isIntLike(from) && isIntLike(to) {
		return Val{S: "Int", E: x.E, T: i.Type()}
	}
	if tb, ok := to.(*types.Basic); ok && tb.Info()&types.IsString != 0 {
		if isIntLike(from) {
			return Val{S: "Str", E: app("sofrune", x.E), T: i.Type()}
		}
		if sl, ok := from.(*types.Slice); ok {
			// string([]byte)
			comp := f.en.u.cellComp(sl.Elem())
			row := app("select", vc.cur(h, comp, "Int"), sref(x.E))
			return Val{S: "Str", E: vc.define(f.prefix+"str", "Str", app("sofbytes", row, slo(x.E), sln(x.E))), T: i.Type()}
		}
	}
	if sl, ok := to.(*types.Slice); ok {
		if fb, ok := from.(*types.Basic); ok && fb.Info()&types.IsString != 0 {
			// []byte(string)
			ref := f.newRef(h)
			comp := f.en.u.cellComp(sl.Elem())
			row := vc.fresh("bytes", "(Array Int Int)")
			k := "k!b"
			vc.assume(fmt.Sprintf("(forall ((%s Int)) (! (=> (and (<= 0 %s) (< %s (slen %s))) (= (select %s %s) (sat %s %s))) :pattern ((select %s %s))))", k, k, k, x.E, row, k, x.E, k, row, k))
			// converting back gives the same string (both conversions copy byte for byte)
			vc.assume(eq(app("sofbytes", row, "0", app("slen", x.E)), x.E))
			vc.setComp(h, comp, "Int", app("store", vc.cur(h, comp, "Int"), ref, row))
			n := app("slen", x.E)
			return Val{S: "Slice", E: mkslice(ref, "0", n, n), T: i.Type()}
		}
	}
	vc.errorf("%s: unsupported conversion %v -> %v", f.fn.Name(), i.X.Type(), i.Type())
	return f.freshVal("conv", i.Type(), h)
}

func (f *Frame) typeAssert(i *ssa.TypeAssert, x Val, reach string, h *Heap) Val {
	u := f.en.u
	at := i.AssertedType
	if it, isIface := at.Underlying().(*types.Interface); isIface {
		// interface-to-interface assertion
		ok := f.implementsTerm(x.E, it)
		if i.CommaOk {
			return Val{S: "Tuple", T: i.Type(), Tuple: []Val{{S: "Iface", E: ite(ok, x.E, "inil"), T: at}, {S: "Bool", E: ok, T: types.Typ[types.Bool]}}}
		}
		f.check("nopanic.typeassert", implies(reach, ok), i.Pos(), "interface conversion")
		return Val{S: "Iface", E: x.E, T: at}
	}
	u.registerBoxed(at)
	is := app("(_ is "+u.boxName(at)+")", x.E)
	v := f.vc.define(f.prefix+"ta", u.sortOf(at), ite(is, app(u.unboxName(at), x.E), u.zeroOf(at)))
	if pt, ok := at.Underlying().(*types.Pointer); ok && f.en.astWfAssumed(i.X.Type(), pt) {
		// A-ASTWF: syntax-tree interfaces never hold typed-nil pointers (established by the
		// parser's postconditions, C08; assumed by every consumer of the tree)
		f.vc.assume(implies(and(reach, is), not(eq(pref(v), "0"))))
		f.vc.assumed = append(f.vc.assumed, "A-ASTWF: an interface value of the syntax tree never holds a typed-nil pointer (assumed where "+f.fn.Name()+" unboxes "+typeKey(at)+")")
	}
	if i.CommaOk {
		return Val{S: "Tuple", T: i.Type(), Tuple: []Val{f.en.mkVal(at, v), {S: "Bool", E: is, T: types.Typ[types.Bool]}}}
	}
	f.check("nopanic.typeassert", implies(reach, is), i.Pos(), "interface conversion: dynamic type is not "+typeKey(at))
	return f.en.mkVal(at, v)
}

// implementsTerm: x's dynamic type (closed world) implements interface it.
func (f *Frame) implementsTerm(x string, it *types.Interface) string {
	u := f.en.u
	var ds []string
	bk := append([]string{}, u.boxedOrd...)
	sort.Strings(bk)
	for _, k := range bk {
		t := u.boxed[k]
		if types.Implements(t, it) {
			ds = append(ds, app("(_ is "+u.boxName(t)+")", x))
		}
	}
	return or(ds...)
}

func (f *Frame) sliceOp(i *ssa.Slice, reach string, h *Heap) (Val, string) {
	x := f.val(i.X)
	vc := f.vc
	lo := "0"
	if i.Low != nil {
		lo = f.val(i.Low).E
	}
	switch xt := i.X.Type().Underlying().(type) {
	case *types.Basic: // string
		hi := app("slen", x.E)
		if i.High != nil {
			hi = f.val(i.High).E
		}
		ok := and(app("<=", "0", lo), app("<=", lo, hi), app("<=", hi, app("slen", x.E)))
		f.check("nopanic.slice", implies(reach, ok), i.Pos(), "slice bounds out of range")
		reach = f.strengthen(reach, ok)
		return Val{S: "Str", E: vc.define(f.prefix+i.Name(), "Str", app("ssub", x.E, lo, hi)), T: i.Type()}, reach
	case *types.Slice:
		hi := sln(x.E)
		if i.High != nil {
			hi = f.val(i.High).E
		}
		mx := scp(x.E)
		if i.Max != nil {
			mx = f.val(i.Max).E
		}
		ok := and(app("<=", "0", lo), app("<=", lo, hi), app("<=", hi, mx), app("<=", mx, scp(x.E)))
		f.check("nopanic.slice", implies(reach, ok), i.Pos(), "slice bounds out of range")
		reach = f.strengthen(reach, ok)
		e := mkslice(sref(x.E), app("+", slo(x.E), lo), app("-", hi, lo), app("-", mx, lo))
		return Val{S: "Slice", E: vc.define(f.prefix+i.Name(), "Slice", e), T: i.Type()}, reach
	case *types.Pointer: // *array
		at := xt.Elem().Underlying().(*types.Array)
		hi := num(at.Len())
		if i.High != nil {
			hi = f.val(i.High).E
		}
		ok := and(app("<=", "0", lo), app("<=", lo, hi), app("<=", hi, num(at.Len())))
		f.check("nopanic.slice", implies(reach, ok), i.Pos(), "slice bounds out of range")
		e := mkslice(pref(x.E), app("+", pidx(x.E), lo), app("-", hi, lo), app("-", num(at.Len()), lo))
		return Val{S: "Slice", E: e, T: i.Type()}, reach
	}
	vc.errorf("slice of %v", i.X.Type())
	return f.freshVal("slice", i.Type(), h), reach
}

// ---- maps ----

func (f *Frame) mapComps(mt *types.Map) (dom, val string) {
	k := typeKey(mt)
	return q("Mdom " + k), q("Mval " + k)
}

func (f *Frame) mapSorts(mt *types.Map) (ks, vs string) {
	return f.en.u.sortOf(mt.Key()), f.en.u.sortOf(mt.Elem())
}

func (f *Frame) emptyDom(mt *types.Map) string {
	ks, _ := f.mapSorts(mt)
	return fmt.Sprintf("((as const (Array %s Bool)) false)", ks)
}

// Map components are one-level: ref -> (Array K Bool) and ref -> (Array K V). They are kept
// in the heap under pseudo element sorts.
func (f *Frame) mapCur(mt *types.Map, h *Heap) (dom, val string) {
	ks, vs := f.mapSorts(mt)
	dc, vcn := f.mapComps(mt)
	f.vc.mapSort(dc, fmt.Sprintf("(Array Int (Array %s Bool))", ks))
	f.vc.mapSort(vcn, fmt.Sprintf("(Array Int (Array %s %s))", ks, vs))
	return f.vc.cur(h, dc, "MapDom"), f.vc.cur(h, vcn, "MapVal")
}

func (f *Frame) mapStore(mt *types.Map, m, k, v string, h *Heap) {
	dom, val := f.mapCur(mt, h)
	dc, vcn := f.mapComps(mt)
	f.vc.setComp(h, dc, "MapDom", app("store", dom, m, app("store", app("select", dom, m), k, "true")))
	f.vc.setComp(h, vcn, "MapVal", app("store", val, m, app("store", app("select", val, m), k, v)))
}

func (f *Frame) lookup(i *ssa.Lookup, reach string, h *Heap) Val {
	x := f.val(i.X)
	k := f.val(i.Index)
	if mt, ok := i.X.Type().Underlying().(*types.Map); ok {
		dom, val := f.mapCur(mt, h)
		has := and(not(eq(x.E, "0")), app("select", app("select", dom, x.E), k.E))
		v := f.vc.define(f.prefix+"mv", f.en.u.sortOf(mt.Elem()), ite(has, app("select", app("select", val, x.E), k.E), f.en.u.zeroOf(mt.Elem())))
		f.vc.assume(implies(reach, f.en.typeFacts(mt.Elem(), v, h.now)))
		if i.CommaOk {
			return Val{S: "Tuple", T: i.Type(), Tuple: []Val{f.en.mkVal(mt.Elem(), v), {S: "Bool", E: has, T: types.Typ[types.Bool]}}}
		}
		return f.en.mkVal(mt.Elem(), v)
	}
	// string index
	f.check("nopanic.index", implies(reach, and(app("<=", "0", k.E), app("<", k.E, app("slen", x.E)))), i.Pos(), "string index out of range")
	v := f.vc.define(f.prefix+"ch", "Int", app("sat", x.E, k.E))
	f.vc.assume(and(app("<=", "0", v), app("<", v, "256")))
	return Val{S: "Int", E: v, T: i.Type()}
}

// goDiv / goMod: Go's truncated division. With a positive literal divisor the definition is
// linear and is given in full; otherwise the operation is an uninterpreted function (the same
// term on the code side and on the spec side).
func goDiv(x, y string) string {
	if k, err := strconv.ParseInt(y, 10, 64); err == nil && k > 0 {
		return ite(app(">=", x, "0"), app("div", x, y), app("-", app("div", app("-", x), y)))
	}
	return app("godiv", x, y)
}

func goMod(x, y string) string {
	if k, err := strconv.ParseInt(y, 10, 64); err == nil && k > 0 {
		return app("-", x, app("*", y, goDiv(x, y)))
	}
	return app("gomod", x, y)
}

// astWfAssumed: the asserted pointer type is a syntax-tree node unboxed from an interface.
func (en *Engine) astWfAssumed(from types.Type, pt *types.Pointer) bool {
	n, ok := pt.Elem().(*types.Named)
	if !ok || n.Obj().Pkg() == nil {
		return false
	}
	return n.Obj().Pkg().Name() == "ast" && en.u.repoPkgs[n.Obj().Pkg().Path()]
}

// sigRead: C15 "decision reads are on significant tokens". In functions whose contract carries
// the sigreads directive every read of Token.TokenType must see a token that is neither
// whitespace nor a comment.
func (f *Frame) sigRead(a *Addr, v Val, reach string, pos token.Pos) {
	if !f.top || f.ct == nil || f.ct.SigReadProps == nil || a.Comp != q("H ast.Token.TokenType") || reach == "false" {
		return
	}
	if f.en.activeProp != "" && !hasProp(f.ct.SigReadProps, f.en.activeProp) {
		return
	}
	ws, ok1 := f.en.constOf("ast", "WS")
	cm, ok2 := f.en.constOf("ast", "COMMENT")
	if !ok1 || !ok2 {
		f.vc.errorf("sigreads: token constants not found")
		return
	}
	goal := implies(reach, and(not(eq(v.E, ws)), not(eq(v.E, cm))))
	f.vc.oblige(f.vc.siteName("sigread"), "assert", goal, f.ct.SigReadProps, f.where(pos), "decision read of a token type must see a significant token (not WS/COMMENT)")
}

func (en *Engine) constOf(pkg, name string) (string, bool) {
	sp := en.pkgs[pkg]
	if sp == nil {
		return "", false
	}
	c, ok := sp.Pkg.Scope().Lookup(name).(*types.Const)
	if !ok {
		return "", false
	}
	n, ok := constant.Int64Val(c.Val())
	return num(n), ok
}

// virtualPred is an edge through which control reaches a join block, looking through blocks
// that hold only phis and a jump.
type virtualPred struct {
	cond string
	heap *Heap
	env  map[ssa.Value]Val
}

func trivialJoin(b *ssa.BasicBlock) bool {
	if len(b.Succs) != 1 || len(b.Preds) < 2 {
		return false
	}
	for _, ins := range b.Instrs {
		switch ins.(type) {
		case *ssa.Phi, *ssa.Jump, *ssa.DebugRef:
		default:
			return false
		}
	}
	return true
}

// virtualPreds enumerates the edges into b; env maps the phis of b (and of the looked-through
// blocks) to their values on that edge.
func (f *Frame) virtualPreds(b *ssa.BasicBlock, depth int) ([]virtualPred, bool) {
	var out []virtualPred
	for pi, p := range b.Preds {
		if f.end[p] == nil {
			continue
		}
		var sub []virtualPred
		if trivialJoin(p) && f.loops[p] == nil && depth < 16 {
			s, ok := f.virtualPreds(p, depth+1)
			if !ok {
				return nil, false
			}
			sub = s
		} else {
			sub = []virtualPred{{cond: f.edgeCond(p, b), heap: f.end[p].heap, env: map[ssa.Value]Val{}}}
		}
		for _, vp := range sub {
			env := map[ssa.Value]Val{}
			for k, v := range vp.env {
				env[k] = v
			}
			for _, ins := range b.Instrs {
				phi, ok := ins.(*ssa.Phi)
				if !ok {
					break
				}
				e := phi.Edges[pi]
				if v, ok := vp.env[e]; ok {
					env[phi] = v
				} else {
					env[phi] = f.val(e)
				}
			}
			out = append(out, virtualPred{cond: vp.cond, heap: vp.heap, env: env})
		}
		if len(out) > 64 {
			return nil, false
		}
	}
	return out, true
}

// tailDuplicate executes a returning join block once per incoming edge instead of merging the
// states (path-sensitive postconditions: no ite over heaps in the obligations).
func (f *Frame) tailDuplicate(b *ssa.BasicBlock) bool {
	if f.loops[b] != nil || len(b.Preds) < 2 || len(b.Instrs) == 0 || len(b.Instrs) > 12 {
		return false
	}
	if _, ok := b.Instrs[len(b.Instrs)-1].(*ssa.Return); !ok {
		return false
	}
	for _, ins := range b.Instrs {
		switch ins.(type) {
		case *ssa.Call, *ssa.Store, *ssa.MapUpdate, *ssa.Alloc:
			return false
		}
	}
	vps, ok := f.virtualPreds(b, 0)
	if !ok || len(vps) < 2 {
		return false
	}
	f.inDup = true
	for _, vp := range vps {
		for k, v := range vp.env {
			f.env[k] = v
		}
		f.execBlock(b, vp.cond, vp.heap.clone())
	}
	f.inDup = false
	return true
}

// closedWorld: a value of an interface type declared in the repository is nil or holds one of
// the concrete types that the program boxes into interfaces and that implement it
// (assumption "closed world of implementations", recomputed from the loaded program each run).
func (en *Engine) closedWorld(t types.Type, it *types.Interface, e string) string {
	n, ok := t.(*types.Named)
	if !ok || n.Obj().Pkg() == nil || !en.u.repoPkgs[n.Obj().Pkg().Path()] || it.NumMethods() == 0 {
		return "true"
	}
	bk := append([]string{}, en.u.boxedOrd...)
	sort.Strings(bk)
	ds := []string{eq(e, "inil")}
	for _, k := range bk {
		bt := en.u.boxed[k]
		if types.Implements(bt, it) {
			ds = append(ds, app("(_ is "+en.u.boxName(bt)+")", e))
		}
	}
	return or(ds...)
}

// constRow is the row of a fresh backing array: every cell holds the zero value. cvc5 accepts
// "as const" only for literal values, so zero values built from uninterpreted constants
// (sempty, fnnil) are stated by a quantified fact over a fresh row instead.
func (f *Frame) constRow(es, zero string) string {
	if !strings.Contains(zero, "sempty") && !strings.Contains(zero, "fnnil") {
		return fmt.Sprintf("((as const (Array Int %s)) %s)", es, zero)
	}
	row := f.vc.fresh("zerorow", fmt.Sprintf("(Array Int %s)", es))
	f.vc.assume(fmt.Sprintf("(forall ((i!z Int)) (! (= (select %s i!z) %s) :pattern ((select %s i!z))))", row, zero, row))
	return row
}
