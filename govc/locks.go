package main

import (
	"fmt"
	"go/types"
	"sort"
	"strings"

	"golang.org/x/tools/go/ssa"
	"golang.org/x/tools/go/ssa/ssautil"
)

// Serialisation by a package-level mutex (C19). A write of a package-level variable g of the
// repository is not a data race when every access to g, anywhere in the repository, happens
// while one and the same package-level sync.Mutex is held. The analysis is deliberately simple:
//   - "held" is decided inside one basic block: an instruction executes while L is held when a
//     call L.Lock() precedes it in its block with no L.Unlock() in between (a lock taken in
//     another block, or released by defer, is not recognised: the access then counts as
//     unprotected, which is the safe side);
//   - a function "needs protection" when it accesses g outside such a section or calls, outside
//     such a section, a function that needs protection; the discipline holds when no function
//     that needs protection can be entered from outside (exported, never called, a closure).
// Assumed and listed in the evidence: sync.Mutex gives mutual exclusion and happens-before
// (Go memory model); no callee releases a lock its caller holds; functions that need protection
// are not called through function values.

// mutexOf: the package-level mutex a Lock/Unlock call works on ("pkg.name"), and which of the two.
func mutexOf(ins ssa.Instruction) (kind, mu string) {
	call, ok := ins.(*ssa.Call)
	if !ok {
		return "", ""
	}
	c := call.Common()
	fn, ok := c.Value.(*ssa.Function)
	if !ok || c.IsInvoke() || len(c.Args) == 0 || fn.Signature.Recv() == nil {
		return "", ""
	}
	rt := fn.Signature.Recv().Type()
	if p, ok := rt.(*types.Pointer); ok {
		rt = p.Elem()
	}
	n, ok := rt.(*types.Named)
	if !ok || n.Obj().Pkg() == nil || n.Obj().Pkg().Path() != "sync" || (n.Obj().Name() != "Mutex" && n.Obj().Name() != "RWMutex") {
		return "", ""
	}
	g, ok := c.Args[0].(*ssa.Global)
	if !ok || g.Pkg == nil {
		return "sync", "" // a mutex that is not a package-level variable: synchronisation only, no section recognised
	}
	name := g.Pkg.Pkg.Name() + "." + g.Name()
	switch fn.Name() {
	case "Lock":
		return "lock", name
	case "Unlock":
		return "unlock", name
	}
	return "sync", name // RLock, TryLock, ...: not taken as the start of a section
}

// heldMap: for every instruction of f the package-level mutex held when it executes ("" = none).
func heldMap(f *ssa.Function) map[ssa.Instruction]string {
	held := map[ssa.Instruction]string{}
	for _, b := range f.Blocks {
		cur := ""
		for _, ins := range b.Instrs {
			switch k, mu := mutexOf(ins); k {
			case "lock":
				if cur == "" {
					cur = mu
				}
				continue
			case "unlock":
				if cur == mu {
					cur = ""
				}
				continue
			}
			if cur != "" {
				held[ins] = cur
			}
		}
	}
	return held
}

func globalComp(g *ssa.Global) string {
	return q("G " + g.Pkg.Pkg.Name() + "." + g.Name())
}

// lockDiscipline: "" when every access to the package-level variable comp in the repository is
// inside a section of the mutex mu; otherwise the reason (the access or entry point that is not).
func (en *Engine) lockDiscipline(comp, mu string) string {
	type fnSet map[*ssa.Function]bool
	needs := map[*ssa.Function]string{}
	unprot := map[*ssa.Function]fnSet{} // callee -> callers that call it outside a section of mu
	called := map[*ssa.Function]bool{}
	var fns []*ssa.Function
	for f := range ssautil.AllFunctions(en.prog) {
		if f.Blocks == nil || !en.inRepo(f) {
			continue
		}
		if f.Synthetic != "" && f.Name() == "init" {
			continue // package initialisation happens before any other use of the package
		}
		fns = append(fns, f)
	}
	sort.Slice(fns, func(i, j int) bool { return funcKey(fns[i])+fns[i].String() < funcKey(fns[j])+fns[j].String() })
	pos := func(ins ssa.Instruction) string {
		p := en.fset.Position(ins.Pos())
		return fmt.Sprintf("%s:%d", strings.TrimPrefix(p.Filename, "/repo/"), p.Line)
	}
	for _, f := range fns {
		held := heldMap(f)
		for _, b := range f.Blocks {
			for _, ins := range b.Instrs {
				if k, _ := mutexOf(ins); k != "" {
					continue
				}
				for _, op := range ins.Operands(nil) {
					if op == nil || *op == nil {
						continue
					}
					if g, ok := (*op).(*ssa.Global); ok && g.Pkg != nil && globalComp(g) == comp && held[ins] != mu && needs[f] == "" {
						needs[f] = fmt.Sprintf("%s accesses it at %s without holding %s", funcKey(f), pos(ins), mu)
					}
				}
				call, ok := ins.(ssa.CallInstruction)
				if !ok {
					continue
				}
				c := call.Common()
				var cs []*ssa.Function
				if c.IsInvoke() {
					cs = en.implementations(c)
				} else if cf, ok := c.Value.(*ssa.Function); ok {
					cs = []*ssa.Function{cf}
				} else if mc, ok := c.Value.(*ssa.MakeClosure); ok {
					if cf, ok := mc.Fn.(*ssa.Function); ok {
						cs = []*ssa.Function{cf}
					}
				}
				_, isCall := ins.(*ssa.Call)
				for _, cf := range cs {
					if o := cf.Origin(); o != nil {
						cf = o
					}
					called[cf] = true
					if held[ins] != mu || !isCall { // go and defer run outside the section
						if unprot[cf] == nil {
							unprot[cf] = fnSet{}
						}
						unprot[cf][f] = true
					}
				}
			}
		}
	}
	for changed := true; changed; {
		changed = false
		for _, callee := range fns {
			if needs[callee] == "" {
				continue
			}
			for caller := range unprot[callee] {
				if needs[caller] == "" {
					needs[caller] = fmt.Sprintf("%s calls %s without holding %s, and %s", funcKey(caller), funcKey(callee), mu, needs[callee])
					changed = true
				}
			}
		}
	}
	for _, f := range fns {
		if needs[f] == "" {
			continue
		}
		exported := f.Object() != nil && f.Object().Exported()
		if exported || f.Name() == "main" || f.Parent() != nil || !called[f] {
			return needs[f]
		}
	}
	return ""
}
