package main

import (
	"fmt"
	"sort"
	"strings"
)

// ---- SMT term helpers (terms are plain strings) ----

func app(f string, args ...string) string {
	if len(args) == 0 {
		return f
	}
	return "(" + f + " " + strings.Join(args, " ") + ")"
}

func and(xs ...string) string {
	ys := []string{}
	for _, x := range xs {
		if x == "true" || x == "" {
			continue
		}
		if x == "false" {
			return "false"
		}
		ys = append(ys, x)
	}
	if len(ys) == 0 {
		return "true"
	}
	if len(ys) == 1 {
		return ys[0]
	}
	return app("and", ys...)
}

func or(xs ...string) string {
	ys := []string{}
	for _, x := range xs {
		if x == "false" || x == "" {
			continue
		}
		if x == "true" {
			return "true"
		}
		ys = append(ys, x)
	}
	if len(ys) == 0 {
		return "false"
	}
	if len(ys) == 1 {
		return ys[0]
	}
	return app("or", ys...)
}

func not(x string) string {
	if x == "true" {
		return "false"
	}
	if x == "false" {
		return "true"
	}
	if strings.HasPrefix(x, "(not ") && balanced(x[5:len(x)-1]) {
		return x[5 : len(x)-1]
	}
	return app("not", x)
}

func balanced(s string) bool {
	d := 0
	inq := false
	for i := 0; i < len(s); i++ {
		c := s[i]
		if c == '|' {
			inq = !inq
		}
		if inq {
			continue
		}
		if c == '(' {
			d++
		} else if c == ')' {
			d--
			if d < 0 {
				return false
			}
		}
	}
	return d == 0
}

func implies(a, b string) string {
	if a == "true" {
		return b
	}
	if a == "false" || b == "true" {
		return "true"
	}
	return app("=>", a, b)
}

func eq(a, b string) string {
	if a == b {
		return "true"
	}
	return app("=", a, b)
}

func ite(c, a, b string) string {
	if c == "true" {
		return a
	}
	if c == "false" {
		return b
	}
	if a == b {
		return a
	}
	return app("ite", c, a, b)
}

func num(n int64) string {
	if n < 0 {
		return fmt.Sprintf("(- %d)", -n)
	}
	return fmt.Sprintf("%d", n)
}

func sel2(h, ref, idx string) string { return app("select", app("select", h, ref), idx) }
func store2(h, ref, idx, v string) string {
	return app("store", h, ref, app("store", app("select", h, ref), idx, v))
}

func pref(p string) string { return stripMk(p, "mkptr", 0, "pref") }
func pidx(p string) string { return stripMk(p, "mkptr", 1, "pidx") }
func pfld(p string) string { return stripMk(p, "mkptr", 2, "pfld") }
func mkptr(r, i, f string) string {
	return app("mkptr", r, i, f)
}

func sref(s string) string { return stripMk(s, "mkslice", 0, "sref") }
func slo(s string) string  { return stripMk(s, "mkslice", 1, "slo") }
func sln(s string) string  { return stripMk(s, "mkslice", 2, "sln") }
func scp(s string) string  { return stripMk(s, "mkslice", 3, "scp") }
func mkslice(r, lo, n, c string) string {
	return app("mkslice", r, lo, n, c)
}

// stripMk simplifies (sel (mk a b c)) to the component when syntactically evident.
func stripMk(t, mk string, k int, selname string) string {
	if strings.HasPrefix(t, "("+mk+" ") {
		parts := splitTop(t[len(mk)+2 : len(t)-1])
		if k < len(parts) {
			return parts[k]
		}
	}
	return app(selname, t)
}

// splitTop splits a space separated list of s-expressions at top level.
func splitTop(s string) []string {
	var out []string
	d := 0
	inq := false
	start := -1
	for i := 0; i < len(s); i++ {
		c := s[i]
		if c == '|' {
			inq = !inq
		}
		if inq {
			if start < 0 {
				start = i
			}
			continue
		}
		switch {
		case c == '(':
			if start < 0 {
				start = i
			}
			d++
		case c == ')':
			d--
		case c == ' ' || c == '\n' || c == '\t':
			if d == 0 && start >= 0 {
				out = append(out, s[start:i])
				start = -1
			}
		default:
			if start < 0 {
				start = i
			}
		}
	}
	if start >= 0 {
		out = append(out, s[start:])
	}
	return out
}

const nilPtr = "(mkptr 0 0 0)"
const nilSlice = "(mkslice 0 0 0 0)"

// q mangles a name into an SMT-LIB simple symbol (no quoting: cvc5 1.0.3 mishandles quoted
// constructor names in testers).
func q(name string) string {
	var b strings.Builder
	for _, c := range name {
		switch {
		case (c >= 'a' && c <= 'z') || (c >= 'A' && c <= 'Z') || (c >= '0' && c <= '9'):
			b.WriteRune(c)
		case strings.ContainsRune("~!@$%^&*_-+=<>.?/", c):
			b.WriteRune(c)
		case c == ' ':
			b.WriteByte('_')
		case c == '#' || c == '|' || c == '\\':
			b.WriteByte('!')
		case c == '[':
			b.WriteByte('<')
		case c == ']':
			b.WriteByte('>')
		case c == '(' || c == ')':
			b.WriteByte('~')
		case c == ',':
			b.WriteByte('&')
		case c == ':' || c == ';':
			b.WriteByte('$')
		case c == '{' || c == '}':
			b.WriteByte('%')
		default:
			b.WriteByte('?')
		}
	}
	return b.String()
}

func sortedKeys[V any](m map[string]V) []string {
	ks := make([]string, 0, len(m))
	for k := range m {
		ks = append(ks, k)
	}
	sort.Strings(ks)
	return ks
}
