package main

import (
	"encoding/json"
	"fmt"
	"go/ast"
	"go/types"
	"os"
	"os/exec"
	"path/filepath"
	"regexp"
	"runtime/pprof"
	"sort"
	"strconv"
	"strings"
	"time"

	"golang.org/x/tools/go/ssa"
)

// ---- known findings ----

type Finding struct {
	Property    string `json:"property"`
	ID          string `json:"id"`
	Function    string `json:"function"`
	Obligations string `json:"obligations"` // regexp on the obligation name after "<function>/"
	Region      string `json:"region"`      // spec expression over the function's parameters and lets
	What        string `json:"what"`
	Witness     string `json:"witness,omitempty"`
	re          *regexp.Regexp
}

type FindingsFile struct {
	Findings []*Finding `json:"findings"`
	Fixed    []string   `json:"fixed"`
}

func loadFindings(path string) (*FindingsFile, error) {
	ff := &FindingsFile{}
	data, err := os.ReadFile(path)
	if err != nil {
		if os.IsNotExist(err) {
			return ff, nil
		}
		return nil, err
	}
	if err := json.Unmarshal(data, ff); err != nil {
		return nil, err
	}
	for _, f := range ff.Findings {
		f.re, err = regexp.Compile("^(" + f.Obligations + ")$")
		if err != nil {
			return nil, err
		}
	}
	return ff, nil
}

// ---- lock file: which contract clauses must produce obligations ----

type LockFile struct {
	Clauses map[string][]string `json:"clauses"` // property -> sorted "function/kind.label" keys
	// Locals: per function under contract, its local variables (name, type) in order of first
	// appearance on the tree the lock was taken from. A contract names locals; when a local
	// has merely been renamed (same sequence of types, the old name gone) the old name in the
	// contract is resolved to the new one instead of making the contract unusable.
	Locals map[string][][2]string `json:"locals,omitempty"`
}

// localTable lists the named local variables of a function in order of first appearance.
func localTable(fn *ssa.Function) [][2]string {
	var out [][2]string
	seen := map[string]bool{}
	add := func(name string, t types.Type) {
		if name == "" || name == "_" || seen[name] {
			return
		}
		seen[name] = true
		out = append(out, [2]string{name, typeKey(t)})
	}
	for _, b := range fn.Blocks {
		for _, ins := range b.Instrs {
			switch i := ins.(type) {
			case *ssa.DebugRef:
				if id, ok := i.Expr.(*ast.Ident); ok {
					if o := i.Object(); o != nil && o.Pkg() != nil && o.Parent() == o.Pkg().Scope() {
						continue
					}
					t := i.X.Type()
					if i.IsAddr {
						if pt, ok := t.Underlying().(*types.Pointer); ok {
							t = pt.Elem()
						}
					}
					add(id.Name, t)
				}
			}
		}
	}
	return out
}

// inferRenames compares the locked local tables with the current code.
func (en *Engine) inferRenames(lock *LockFile) {
	en.renames = map[string]map[string]string{}
	for key, locked := range lock.Locals {
		fn := en.funcs[key]
		if fn == nil || fn.Blocks == nil {
			continue
		}
		cur := localTable(fn)
		if len(cur) != len(locked) {
			continue
		}
		names := map[string]bool{}
		same := true
		for i := range cur {
			names[cur[i][0]] = true
			same = same && cur[i][1] == locked[i][1]
		}
		if !same {
			continue
		}
		for i := range cur {
			if cur[i][0] != locked[i][0] && !names[locked[i][0]] {
				if en.renames[key] == nil {
					en.renames[key] = map[string]string{}
				}
				en.renames[key][locked[i][0]] = cur[i][0]
			}
		}
	}
}

var ordinalRe = regexp.MustCompile(`(@return#\d+|/path#\d+|@pred\d+|@latch\d+|#\d+$)`)

// clauseKey strips run-specific ordinals from an obligation name.
func clauseKey(name string) string {
	for {
		n := ordinalRe.ReplaceAllString(name, "")
		if n == name {
			return n
		}
		name = n
	}
}

type obResult struct {
	O       *Oblig
	VC      *VC
	R       SolveResult
	Status  string // discharged | known-finding | violation | cover-ok | cover-fail
	Finding []*Finding
	File    string
}

type checkOpts struct {
	repo, verif, spec, prop, tier string
	timeout                       int
	writeLock                     bool
	canary                        string // must-fail run of a seeded change on a scratch copy
}

func hasProp(ps []string, id string) bool {
	for _, p := range ps {
		if p == id {
			return true
		}
	}
	return false
}

// functionsFor returns the functions whose contract serves the property.
func (en *Engine) functionsFor(prop string) []string {
	var keys []string
	for _, k := range sortedKeys(en.cs.Funcs) {
		ct := en.cs.Funcs[k]
		if (ct.Trusted && len(ct.Effects) == 0) || ct.Inline {
			continue
		}
		serves := hasProp(ct.Props, prop) || hasProp(ct.NoPanicProps, prop)
		for _, cl := range ct.Requires {
			serves = serves || hasProp(cl.Props, prop)
		}
		for _, cl := range ct.Ensures {
			serves = serves || hasProp(cl.Props, prop)
		}
		for _, cls := range ct.LoopInv {
			for _, cl := range cls {
				serves = serves || hasProp(cl.Props, prop)
			}
		}
		for _, cls := range ct.AtCall {
			for _, cl := range cls {
				serves = serves || hasProp(cl.Props, prop)
			}
		}
		for _, ec := range ct.Effects {
			serves = serves || hasProp(ec.Props, prop) || (len(ec.Props) == 0 && hasProp(ct.Props, prop))
		}
		if serves {
			keys = append(keys, k)
		}
	}
	return keys
}

func checkMain(args []string) int {
	opts := checkOpts{repo: envOr("VERIF_REPO", "/repo"), verif: "/verif", tier: "quick"}
	if wd, err := os.Getwd(); err == nil {
		if _, err := os.Stat(filepath.Join(wd, "properties.jsonl")); err == nil {
			opts.verif = wd
		}
	}
	var pos []string
	for _, a := range args {
		switch a {
		case "--lock":
			opts.writeLock = true
		default:
			pos = append(pos, a)
		}
	}
	if len(pos) < 1 {
		fmt.Fprintln(os.Stderr, "usage: govc check <property> [quick|thorough] [--lock]")
		return 2
	}
	opts.prop = pos[0]
	if len(pos) > 1 {
		opts.tier = pos[1]
	}
	if t := os.Getenv("VERIF_TIER"); t == "quick" || t == "thorough" {
		if len(pos) < 2 {
			opts.tier = t
		}
	}
	opts.spec = filepath.Join(opts.verif, "spec")
	opts.timeout = 10
	if opts.tier == "thorough" {
		opts.timeout = 60
	}
	start := time.Now()
	if pf := os.Getenv("VERIF_PROF"); pf != "" {
		if f, err := os.Create(pf); err == nil {
			pprof.StartCPUProfile(f)
			defer pprof.StopCPUProfile()
		}
	}
	opts.canary = os.Getenv("VERIF_CANARY")
	code, ev := runCheck(opts)
	if opts.canary != "" {
		return code // a must-fail run on a scratch copy: no evidence is written
	}
	if opts.tier == "thorough" && code == 0 {
		if cov, ok := ev["coverage"].(map[string]any); ok {
			cov["must_fail_canaries"] = runCanaries(opts)
		}
	}
	ev["wall_s"] = time.Since(start).Seconds()
	evPath := filepath.Join(opts.verif, "evidence", opts.prop+".json")
	os.MkdirAll(filepath.Dir(evPath), 0o755)
	data, _ := json.MarshalIndent(ev, "", " ")
	if err := os.WriteFile(evPath, data, 0o644); err != nil {
		fmt.Fprintln(os.Stderr, "cannot write evidence:", err)
		return 2
	}
	return code
}

func envOr(k, d string) string {
	if v := os.Getenv(k); v != "" {
		return v
	}
	return d
}

func runCheck(opts checkOpts) (int, map[string]any) {
	seed, _ := strconv.Atoi(os.Getenv("VERIF_SEED"))
	ev := map[string]any{"property_id": opts.prop, "tier": opts.tier, "seed": seed, "level": "proof", "violations": 0}
	cov := map[string]any{}
	ev["coverage"] = cov
	fail := func(msg string) (int, map[string]any) {
		fmt.Println("ENGINE-ERROR:", msg)
		cov["explanation"] = "engine error: " + msg
		cov["obligations"] = 0
		cov["discharged"] = 0
		cov["evaluations"] = 1
		cov["distinct_nontrivial"] = 0
		ev["level"] = "other"
		return 2, ev
	}
	t0 := time.Now()
	tick := func(what string) {
		if os.Getenv("VERIF_TIMING") != "" {
			fmt.Fprintf(os.Stderr, "[timing] %-12s %6.1fs\n", what, time.Since(t0).Seconds())
		}
	}
	en, err := loadEngine(opts.repo, opts.spec)
	tick("load")
	if err != nil {
		return fail(err.Error())
	}
	{
		early := &LockFile{}
		if data, err := os.ReadFile(filepath.Join(opts.verif, "obligations.lock")); err == nil {
			json.Unmarshal(data, early)
		}
		en.inferRenames(early)
	}
	ff, err := loadFindings(filepath.Join(opts.verif, "known_findings.json"))
	if err != nil {
		return fail("known_findings.json: " + err.Error())
	}
	en.activeProp = opts.prop
	keys := en.functionsFor(opts.prop)
	if len(keys) == 0 {
		return fail("no function under contract serves " + opts.prop)
	}
	outDir := filepath.Join(opts.verif, "out", opts.prop)
	if opts.canary != "" {
		outDir = filepath.Join(opts.verif, "out", "canary", opts.canary, opts.prop)
	}
	os.RemoveAll(outDir)
	var all []*obResult
	var engineErrs []string
	var notes, assumed, closed []string
	usedAx := map[string]bool{}
	var missing []string
	var effAll []effResult
	type job struct {
		k  string
		fn *ssa.Function
	}
	var jobs []job
	for _, k := range keys {
		if insts := en.inst[k]; len(insts) > 0 {
			for _, fn := range insts {
				jobs = append(jobs, job{k, fn})
			}
			continue
		}
		jobs = append(jobs, job{k, en.funcs[k]})
	}
	for _, j := range jobs {
		k, fn := j.k, j.fn
		if fn == nil || fn.Blocks == nil {
			missing = append(missing, k)
			continue
		}
		if ct := en.cs.Funcs[k]; len(ct.Effects) > 0 {
			effRes := en.checkEffects(fn, ct, opts.prop)
			effAll = append(effAll, effRes...)
			var ks []string
			for fk := range en.effByClause {
				ks = append(ks, fk)
			}
			sort.Strings(ks)
			for _, fk := range ks {
				assumed = append(assumed, "effect inference below "+k+": the write effect of "+fk+" is taken from "+en.effByClause[fk]+" (a write smuggled into it is reported there, not here)")
			}
			if len(ct.Requires)+len(ct.Ensures)+len(ct.LoopInv) == 0 || ct.Trusted {
				continue
			}
		}
		vc := en.verifyFunc(fn, en.cs.Funcs[k], ff.Findings...)
		engineErrs = append(engineErrs, vc.errs...)
		notes = append(notes, vc.notes...)
		assumed = append(assumed, vc.assumed...)
		closed = append(closed, vc.closedWorld...)
		for _, o := range vc.obls {
			if !hasProp(o.Props, opts.prop) {
				continue
			}
			all = append(all, &obResult{O: o, VC: vc})
		}
	}
	tick("vcgen")
	// A function under contract that no longer exists cannot meet its contract: the property's
	// argument has a hole there. Reported as a violation of the obligation "<function>/exists".
	var structural [][2]string
	for _, k := range missing {
		structural = append(structural, [2]string{k + "/exists", "the function under contract " + k + " is not in the source tree any more: its contract, which the argument for " + opts.prop + " relies on, cannot be established"})
	}
	// engine errors (code outside the subset, a contract that names something that is gone)
	// make the run undecided - unless obligations fail anyway, which is then what is reported
	pendingErr := ""
	if len(engineErrs) > 0 {
		sort.Strings(engineErrs)
		pendingErr = "code outside the supported subset or unusable contract: " + strings.Join(uniq(engineErrs), "; ")
	}
	if len(all) == 0 && len(effAll) == 0 && len(structural) == 0 {
		return fail("zero obligations generated")
	}
	// lock: every clause recorded for the property must still produce obligations
	lockPath := filepath.Join(opts.verif, "obligations.lock")
	lock := &LockFile{Clauses: map[string][]string{}}
	if data, err := os.ReadFile(lockPath); err == nil {
		json.Unmarshal(data, lock)
	}
	have := map[string]bool{}
	for _, r := range all {
		if r.O.Kind == "nopanic" || r.O.Kind == "modifies" || r.O.Kind == "pre" || r.O.Kind == "cover" || r.O.Kind == "assert" {
			continue // these depend on the shape of the code, not on the contract clauses
		}
		have[clauseKey(r.O.Name)] = true
	}
	for _, er := range effAll {
		n := er.name
		if j := strings.Index(n, ":"); j > 0 {
			n = n[:j]
		}
		if j := strings.Index(n, "("); j > 0 && strings.Contains(n, "/effects.") {
			n = n[:j]
		}
		have[n] = true
	}
	if opts.writeLock {
		if lock.Locals == nil {
			lock.Locals = map[string][][2]string{}
		}
		for _, k := range keys {
			if fn := en.funcs[k]; fn != nil && fn.Blocks != nil {
				lock.Locals[k] = localTable(fn)
			}
		}
		lock.Clauses[opts.prop] = sortedKeys(have)
		data, _ := json.MarshalIndent(lock, "", " ")
		os.WriteFile(lockPath, data, 0o644)
	} else {
		var gone []string
		for _, c := range lock.Clauses[opts.prop] {
			if !have[c] && !strings.Contains(c, "/inv.") && !strings.Contains(c, "/dec.") {
				// loop clauses may legitimately lose their loop in a refactoring; the
				// postconditions they served are still checked
				gone = append(gone, c)
			}
		}
		if len(lock.Clauses[opts.prop]) == 0 {
			return fail("no lock entry for " + opts.prop + " (run with --lock on the pinned tree)")
		}
		for _, c := range gone {
			fnPart := c
			if j := strings.Index(c, "/"); j > 0 {
				fnPart = c[:j]
			}
			already := false
			for _, st := range structural {
				already = already || st[0] == fnPart+"/exists"
			}
			if !already {
				structural = append(structural, [2]string{c, "the contract clause " + c + " produced obligations on the unchanged tree and produces none on the current code (the return site, loop or call it speaks about is gone): it is not established"})
			}
		}
	}
	// solve
	files := make([]string, len(all))
	for i, r := range all {
		files[i] = obligFile(outDir, r.O.Name)
		r.File = files[i]
		writeFile(files[i], en.assemble(r.VC, r.O, true))
	}
	tick("assemble")
	res := runAll(files, opts.timeout, 16, opts.tier == "thorough")
	// Undecided obligations get a last, uncontended attempt (four at a time, twice the time): under
	// the full parallel load (16 queries x 3 solvers on 16 cores) a query that needs a few CPU
	// seconds can miss the wall-clock limit, which would be a false alarm on the unchanged tree.
	var again []int
	for i, r := range all {
		if st := res[i].Status; !r.O.WantSat && st != "unsat" && st != "sat" && st != "error" && st != "disagree" {
			again = append(again, i)
		}
	}
	if len(again) > 0 && len(again) <= 24 {
		var files2 []string
		for _, i := range again {
			files2 = append(files2, files[i])
		}
		res2 := runAll(files2, opts.timeout*2, 4, false)
		for k, i := range again {
			if res2[k].Status == "unsat" || res2[k].Status == "sat" {
				res2[k].Time += res[i].Time
				res[i] = res2[k]
			} else {
				res[i].Time += res2[k].Time
			}
		}
	}
	tick("solve")
	solverTime := 0.0
	byBackend := map[string]int{}
	discharged, violations, known, covers := 0, 0, 0, 0
	var lines []string
	type slow struct {
		name string
		t    float64
	}
	var slows []slow
	knownPrinted := map[string]bool{}
	var coverFails, deadReturns, effLines []string
	pathTotal, pathDead := map[string]int{}, map[string]int{}
	for i, r := range all {
		r.R = res[i]
		solverTime += r.R.Time
		slows = append(slows, slow{r.O.Name, r.R.Time})
		if r.R.Status == "error" {
			return fail("solver error on " + r.O.Name + " (" + r.File + "): " + truncate(r.R.Output, 300))
		}
		if r.R.Status == "disagree" {
			return fail("solvers disagree on " + r.O.Name)
		}
		if r.O.WantSat {
			covers++
			if strings.Contains(r.O.Name, "/smoke.path@") {
				pathTotal[r.O.Func]++
				if r.R.Status == "unsat" {
					pathDead[r.O.Func]++
					deadReturns = append(deadReturns, r.O.Name+" @ "+r.O.Where)
				}
			}
			if r.R.Status == "unsat" && !r.O.Dead {
				r.Status = "cover-fail"
				coverFails = append(coverFails, r.O.Name+" @ "+r.O.Where)
				continue
			}
			r.Status = "cover-ok"
			continue
		}
		if r.R.Status == "unsat" {
			r.Status = "discharged"
			discharged++
			byBackend[r.R.Backend]++
			continue
		}
		// failed: try the recorded findings
		var cands []*Finding
		short := strings.TrimPrefix(r.O.Name, r.O.Func+"/")
		for _, f := range ff.Findings {
			if f.Property == opts.prop && f.Function == r.O.Func && f.re.MatchString(short) {
				cands = append(cands, f)
			}
		}
		if len(cands) > 0 {
			excl, err := en.assembleExcluding(r.VC, r.O, cands)
			if err != nil {
				return fail("known finding region: " + err.Error())
			}
			ef := strings.TrimSuffix(r.File, ".smt2") + ".excl.smt2"
			writeFile(ef, excl)
			er := solve(ef, opts.timeout, false)
			solverTime += er.Time
			if er.Status == "unsat" {
				r.Status = "known-finding"
				r.Finding = cands
				known++
				byBackend[er.Backend]++
				for _, f := range cands {
					if !knownPrinted[f.ID] {
						knownPrinted[f.ID] = true
						lines = append(lines, fmt.Sprintf("KNOWN-FINDING: property=%s %s %s: %s (obligation %s fails only inside the recorded region: %s)", opts.prop, f.ID, f.Function, f.What, r.O.Name, f.Region))
					}
				}
				continue
			}
		}
		r.Status = "violation"
		violations++
	}
	effDischarged := 0
	var effSamples []any
	for _, er := range effAll {
		if er.ok {
			effDischarged++
			if len(effSamples) < 4 {
				effSamples = append(effSamples, map[string]any{"obligation": er.name, "kind": "effects", "clause": er.what, "result": "holds (static write-effect analysis over the SSA call graph)", "functions_scanned": er.scanned, "write_sites_scanned": er.sites})
			}
			continue
		}
		matched := false
		for _, f := range ff.Findings {
			if f.Property == opts.prop && f.Function == er.fn && f.re.MatchString(strings.TrimPrefix(er.name, er.fn+"/")) {
				matched = true
				known++
				if !knownPrinted[f.ID] {
					knownPrinted[f.ID] = true
					lines = append(lines, fmt.Sprintf("KNOWN-FINDING: property=%s %s %s: %s (%s)", opts.prop, f.ID, f.Function, f.What, er.what))
				}
			}
		}
		if !matched {
			violations++
			rp := filepath.Join(opts.verif, "out", "replay", safeName.ReplaceAllString(opts.prop+"__"+er.name, "_")+".json")
			os.MkdirAll(filepath.Dir(rp), 0o755)
			data, _ := json.MarshalIndent(map[string]any{"property": opts.prop, "obligation": er.name, "kind": "effects", "what": er.what, "write_sites": er.where,
				"failing_input_found": false, "note": "frame obligation decided by static write-effect analysis: there is no input to replay; the offending write sites are listed"}, "", " ")
			os.WriteFile(rp, data, 0o644)
			effLines = append(effLines, fmt.Sprintf("VIOLATION property=%s replay=%s obligation=%s no-failing-input-found", opts.prop, rp, er.name))
		}
	}
	vioFuncs := map[string]bool{}
	for _, r := range all {
		if r.Status == "violation" {
			vioFuncs[r.O.Func] = true
		}
	}
	if violations == 0 && pendingErr == "" && len(structural) > 0 {
		var names []string
		for _, st := range structural {
			names = append(names, st[0])
		}
		pendingErr = "functions or clauses under contract are gone from the source tree (renamed or removed?): " + strings.Join(names, ", ")
	}
	if violations == 0 && pendingErr != "" {
		return fail(pendingErr)
	}
	if pendingErr != "" {
		fmt.Println("NOTE: besides the violations below the run had engine errors:", truncate(pendingErr, 600))
	}
	for _, st := range structural {
		violations++
		rp := filepath.Join(opts.verif, "out", "replay", safeName.ReplaceAllString(opts.prop+"__"+st[0], "_")+".json")
		os.MkdirAll(filepath.Dir(rp), 0o755)
		data, _ := json.MarshalIndent(map[string]any{"property": opts.prop, "obligation": st[0], "kind": "structural", "what": st[1],
			"failing_input_found": false, "note": "no solver query: the obligation cannot be generated from the current code"}, "", " ")
		os.WriteFile(rp, data, 0o644)
		effLines = append(effLines, fmt.Sprintf("VIOLATION property=%s replay=%s obligation=%s no-failing-input-found", opts.prop, rp, st[0]))
	}
	for fn, n := range pathTotal {
		// a function that fails an obligation on every path (an unconditional panic) has no
		// reachable return either: that is the violation's consequence, reported as the violation
		if n > 0 && pathDead[fn] == n && !vioFuncs[fn] {
			coverFails = append(coverFails, fn+": no return site is reachable under the contract")
		}
	}
	sort.Strings(coverFails)
	cov["unreachable_return_sites_under_contract"] = deadReturns
	if len(coverFails) > 0 && violations > 0 {
		// a contract that can no longer be evaluated against a changed signature makes its function
		// vacuous; the failed obligations elsewhere are the verdict, this is their side effect
		fmt.Println("NOTE: besides the violations below some contracts are vacuous on the current code:", truncate(strings.Join(coverFails, "; "), 600))
	} else if len(coverFails) > 0 {
		return fail("vacuity: contradictory assumptions, or return sites that no input reaches (declare dead code under the contract with 'deadreturn'): " + strings.Join(coverFails, "; "))
	}
	sort.Slice(slows, func(i, j int) bool { return slows[i].t > slows[j].t })
	if os.Getenv("VERIF_SLOW") != "" {
		for _, sl := range slows {
			if sl.t > 2.5 && !strings.Contains(sl.name, "/smoke.") && !strings.Contains(sl.name, "/cover.") {
				fmt.Fprintf(os.Stderr, "SLOW %.1fs %s\n", sl.t, sl.name)
			}
		}
	}
	// report violations
	replayDir := filepath.Join(opts.verif, "out", "replay")
	if opts.canary != "" {
		replayDir = filepath.Join(opts.verif, "out", "canary", opts.canary, "replay")
	}
	os.MkdirAll(replayDir, 0o755)
	var vioNames []string
	for _, r := range all {
		if r.Status != "violation" {
			continue
		}
		vioNames = append(vioNames, r.O.Name)
		rp := filepath.Join(replayDir, safeName.ReplaceAllString(opts.prop+"__"+r.O.Name, "_")+".json")
		found := replayObligation(en, opts, r, rp)
		suffix := ""
		if !found {
			suffix = " no-failing-input-found"
		}
		lines = append(lines, fmt.Sprintf("VIOLATION property=%s replay=%s obligation=%s%s", opts.prop, rp, r.O.Name, suffix))
	}
	lines = append(lines, effLines...)
	for _, l := range lines {
		fmt.Println(l)
	}
	// evidence
	fnset := map[string]bool{}
	var samples []any
	for i, r := range all {
		fnset[r.O.Func] = true
		if i%((len(all)/6)+1) == 0 && len(samples) < 8 {
			samples = append(samples, map[string]any{"obligation": r.O.Name, "kind": r.O.Kind, "clause": r.O.Src, "where": r.O.Where,
				"result": r.R.Status, "backend": r.R.Backend, "time_s": r.R.Time, "smt_bytes": fileSize(r.File)})
		}
	}
	// the queries of discharged obligations are not kept (a full run of all checks wrote 1.5 GB):
	// only those of violations and known findings stay for inspection and replay (VERIF_KEEP=1 keeps all)
	if os.Getenv("VERIF_KEEP") == "" {
		for _, r := range all {
			if r.Status == "discharged" || r.Status == "cover-ok" {
				os.Remove(r.File)
			}
		}
	}
	total := len(all) - covers + len(effAll)
	discharged += effDischarged
	samples = append(samples, effSamples...)
	cov["obligations"] = total
	cov["discharged"] = discharged + known
	cov["effect_obligations"] = len(effAll)
	cov["discharged_unconditionally"] = discharged
	cov["discharged_only_outside_known_finding_regions"] = known
	cov["undischarged"] = violations
	cov["cover_checks"] = covers
	cov["checker_cmd"] = fmt.Sprintf("/verif/check %s %s  (govc: VCs from go/ssa of %s + contracts in zz_contracts_verif.go, raced on z3-new 5.1.0 / z3 4.8.12 / cvc5 1.0.3, timeout %ds)", opts.prop, opts.tier, opts.repo, opts.timeout)
	cov["trusted_base"] = []string{"govc (SSA->VC translation, heap encoding, contract parser)", "go/packages + go/ssa (x/tools v0.29.0), Go 1.23.5 front end",
		"z3 5.1.0, z3 4.8.12, cvc5 1.0.3 (unsat answers believed)", "Str theory axioms (spec: govc/prelude.go)", "assumed external contracts (spec/externals.spec)"}
	cov["functions_under_contract"] = sortedKeys(fnset)
	cov["by_backend"] = byBackend
	cov["solver_time_s"] = solverTime
	var sl []any
	for i := 0; i < len(slows) && i < 5; i++ {
		sl = append(sl, map[string]any{"obligation": slows[i].name, "time_s": slows[i].t})
	}
	cov["slowest"] = sl
	cov["samples"] = samples
	cov["violating_obligations"] = vioNames
	cov["known_findings"] = lines
	cov["doc_table_rows"] = en.docSamples
	cov["notes"] = uniq(notes)
	ev["violations"] = violations
	var as []string
	as = append(as, "A-INT: Go integers are mathematical integers (no overflow)")
	as = append(as, uniq(assumed)...)
	for _, c := range uniq(closed) {
		as = append(as, "closed world of interface implementations: "+c)
	}
	as = append(as, en.cs.Scan...)
	for _, a := range sortedKeys(usedAxOf(all)) {
		as = append(as, "axiom used: "+a)
	}
	_ = usedAx
	as = append(as, residualOf(opts.prop)...)
	ev["assumptions"] = as
	fmt.Printf("%s %s: %d obligations, %d discharged, %d known-finding, %d undischarged, %d cover checks, solver %.1fs\n",
		opts.prop, opts.tier, total, discharged, known, violations, covers, solverTime)
	if violations > 0 {
		return 1, ev
	}
	return 0, ev
}

func usedAxOf(all []*obResult) map[string]bool {
	m := map[string]bool{}
	for _, r := range all {
		for k := range r.VC.usedAx {
			m[k] = true
		}
	}
	return m
}

func fileSize(p string) int64 {
	st, err := os.Stat(p)
	if err != nil {
		return 0
	}
	return st.Size()
}

func uniq(xs []string) []string {
	seen := map[string]bool{}
	var out []string
	for _, x := range xs {
		if !seen[x] {
			seen[x] = true
			out = append(out, x)
		}
	}
	return out
}

// assembleExcluding re-poses an obligation with the recorded regions excluded.
func (en *Engine) assembleExcluding(vc *VC, o *Oblig, fs []*Finding) (string, error) {
	base := en.assemble(vc, o, false)
	var extra []string
	for _, f := range fs {
		t, err := en.regionTerm(vc, f)
		if err != nil {
			return "", err
		}
		extra = append(extra, "(assert (not "+t+")) ; outside known finding "+f.ID)
	}
	marker := "(assert (not " + o.Goal + "))\n(check-sat)"
	if !strings.Contains(base, marker) {
		return "", fmt.Errorf("cannot splice region into %s", o.Name)
	}
	return strings.Replace(base, marker, strings.Join(extra, "\n")+"\n"+marker, 1), nil
}

func (en *Engine) assembleWithLines(vc *VC, o *Oblig, n int) string {
	saved := o.NLines
	// only declarations from later lines are needed; assertions after the obligation point are dropped
	var keep []string
	keep = append(keep, vc.lines[:saved]...)
	for _, l := range vc.lines[saved:n] {
		if strings.HasPrefix(l, "(declare-") {
			keep = append(keep, l)
		}
	}
	tmp := &VC{u: vc.u, cs: vc.cs, lines: keep, usedAx: vc.usedAx, specLines: vc.specLines, axioms: vc.axioms}
	o2 := *o
	o2.NLines = len(keep)
	return en.assemble(tmp, &o2, false)
}

// regionTerm evaluates a finding's region in the entry state of its function.
func (en *Engine) regionTerm(vc *VC, f *Finding) (string, error) {
	if vc.regionCache == nil {
		vc.regionCache = map[string]string{}
	}
	if t, ok := vc.regionCache[f.ID]; ok {
		return t, nil
	}
	e, err := parseSpecExpr(f.Region)
	if err != nil {
		return "", err
	}
	fr := vc.topFrame
	if fr == nil {
		return "", fmt.Errorf("no frame for %s", f.Function)
	}
	nerr := len(vc.errs)
	ctx := fr.specCtx(fr.entry, nil)
	t := ctx.evalBool(e)
	if len(vc.errs) > nerr {
		return "", fmt.Errorf("region of %s: %s", f.ID, strings.Join(vc.errs[nerr:], "; "))
	}
	vc.regionCache[f.ID] = t
	return t, nil
}

var _ = ssa.Function{}

// runCanaries is the self-test of the thorough tier: every seeded change recorded as caught by
// this property's check is applied to a scratch copy of the current working tree and the quick
// check is run on the copy; it must report a violation there. The result goes to the evidence
// (a canary that no longer applies to the current tree is skipped, one that is no longer
// detected is reported on stderr).
func runCanaries(opts checkOpts) []any {
	var out []any
	metas, _ := filepath.Glob(filepath.Join(opts.verif, "seeded", "*", "meta.json"))
	sort.Strings(metas)
	for _, mf := range metas {
		data, err := os.ReadFile(mf)
		if err != nil {
			continue
		}
		var meta struct {
			ID       string `json:"id"`
			CaughtBy []struct {
				Check string `json:"check"`
			} `json:"caught_by"`
		}
		if json.Unmarshal(data, &meta) != nil {
			continue
		}
		mine := false
		for _, c := range meta.CaughtBy {
			mine = mine || c.Check == opts.prop
		}
		if !mine {
			continue
		}
		rec := map[string]any{"seeded_change": meta.ID}
		scratch, err := os.MkdirTemp("", "govc-canary-")
		if err != nil {
			rec["result"] = "skipped: " + err.Error()
			out = append(out, rec)
			continue
		}
		func() {
			defer os.RemoveAll(scratch)
			if o, err := exec.Command("rsync", "-a", "--exclude", ".git", opts.repo+"/", scratch+"/").CombinedOutput(); err != nil {
				rec["result"] = "skipped: copy failed: " + truncate(string(o), 200)
				return
			}
			patch := filepath.Join(filepath.Dir(mf), "patch.diff")
			cmd := exec.Command("patch", "-p1", "-s", "-F3", "--no-backup-if-mismatch", "-d", scratch, "-i", patch)
			if o, err := cmd.CombinedOutput(); err != nil {
				rec["result"] = "skipped: the change does not apply to the current tree: " + truncate(string(o), 200)
				return
			}
			self, _ := os.Executable()
			run := exec.Command(self, "check", opts.prop, "quick")
			run.Dir = opts.verif
			run.Env = append(os.Environ(), "VERIF_REPO="+scratch, "VERIF_CANARY="+meta.ID)
			o, _ := run.CombinedOutput()
			n := strings.Count(string(o), "VIOLATION property=")
			code := -1
			if run.ProcessState != nil {
				code = run.ProcessState.ExitCode()
			}
			if code == 1 && n > 0 {
				rec["result"] = fmt.Sprintf("detected (%d violating obligations)", n)
			} else {
				rec["result"] = fmt.Sprintf("NOT detected (exit %d)", code)
				fmt.Fprintf(os.Stderr, "must-fail canary %s is not detected by the %s check any more (exit %d)\n", meta.ID, opts.prop, code)
			}
		}()
		out = append(out, rec)
	}
	os.RemoveAll(filepath.Join(opts.verif, "out", "canary"))
	return out
}
