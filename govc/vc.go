package main

import (
	"fmt"
	"go/token"
	"go/types"
	"golang.org/x/tools/go/ssa"
	"os"
	"strings"
)

// Val is a symbolic value.
type Val struct {
	S     string     // SMT sort
	E     string     // SMT term
	T     types.Type // Go type (may be nil for spec-only values)
	Tuple []Val      // for tuple values
	Addr  *Addr      // for pointers with a known designation
}

// Addr designates a location: component comp at cell Base (a Ptr term), then a path of
// struct-field selections inside the component's value.
type Addr struct {
	Base     string
	Comp     string
	CompT    types.Type // Go type of the component's value
	Path     []pathStep
	LeafT    types.Type
	Register *regCell // non-nil: a non-escaping local kept as register (not in heap)
}

type pathStep struct {
	structT types.Type
	field   int
}

type regCell struct{ cur Val }

type Oblig struct {
	Name    string
	Kind    string // pre post inv.entry inv.step dec nopanic modifies lemma assert cover smoke
	Goal    string
	NLines  int
	Props   []string
	Where   string
	Func    string
	Blk     int   // block of the verified function in which the obligation arises
	Res     []Val // post obligations: the values returned at this return site (for replay)
	WantSat bool  // cover/smoke: expected satisfiable
	Dead    bool  // smoke of a return site declared unreachable under the contract (unsat is expected)
	Src     string
}

// VC accumulates declarations, assumptions and obligations for one function.
type VC struct {
	u           *Universe
	cs          *Contracts
	lines       []string
	declared    map[string]bool
	obls        []*Oblig
	nfresh      int
	fn          string
	lits        map[string]string
	litOrd      []string
	comps       map[string]string // component -> element sort
	compOrd     []string
	assumed     []string // assumptions used (externals without contract, etc)
	notes       []string
	fset        *token.FileSet
	errs        []string
	specDecl    map[string]bool
	usedAx      map[string]bool
	sites       map[string]int
	mapSorts    map[string]string
	closedWorld []string
	specLines   []string
	axioms      []axiomText
	regionCache map[string]string
	lineBlk     []int         // block of the verified function that emitted each line (-1: preamble)
	curRes      []Val         // results of the return site whose postconditions are being posed
	fnSSA       *ssa.Function // the function under verification (replay)
	paramVals   []Val         // its symbolic parameters (replay)
	curBlk      int
	reach       map[int]map[int]bool // reach[a][b]: block a can reach block b without back edges
	defMemo     map[string][]memoDef // term -> defined constant (same term, same name)
	verNow      map[string]string    // heap version -> allocation counter when it was created
	topFrame    *Frame
}

func newVC(u *Universe, cs *Contracts, fn string, fset *token.FileSet) *VC {
	return &VC{u: u, cs: cs, declared: map[string]bool{}, fn: fn, lits: map[string]string{}, comps: map[string]string{},
		fset: fset, specDecl: map[string]bool{}, usedAx: map[string]bool{}, sites: map[string]int{}, curBlk: -1}
}

func (vc *VC) emit(s string) {
	vc.lines = append(vc.lines, s)
	vc.lineBlk = append(vc.lineBlk, vc.curBlk)
}

func (vc *VC) declare(name, sort string) {
	if vc.declared[name] {
		return
	}
	vc.declared[name] = true
	vc.emit(fmt.Sprintf("(declare-const %s %s)", name, sort))
}

func (vc *VC) fresh(prefix, sort string) string {
	vc.nfresh++
	name := q(fmt.Sprintf("%s#%d", prefix, vc.nfresh))
	vc.declare(name, sort)
	return name
}

func (vc *VC) assume(t string) {
	if t == "true" {
		return
	}
	vc.emit("(assert " + t + ")")
}

// define introduces a named constant equal to term (keeps models readable and terms small).
var dbgDef = os.Getenv("GOVC_DEBUG_DEF")

func (vc *VC) define(prefix, sort, term string) string {
	if len(term) < 24 && !strings.Contains(term, " ") {
		return term
	}
	if vc.defMemo == nil {
		vc.defMemo = map[string][]memoDef{}
	}
	key := sort + "\x00" + term
	for _, d := range vc.defMemo[key] {
		// reuse only a definition whose block can reach the current one (control-flow slicing
		// drops the defining equation otherwise)
		if d.blk < 0 || d.blk == vc.curBlk || (vc.reach != nil && vc.reach[d.blk] != nil && vc.reach[d.blk][vc.curBlk]) {
			if dbgDef != "" && d.name == dbgDef {
				fmt.Fprintf(os.Stderr, "reuse %s defined in blk %d at blk %d\n", d.name, d.blk, vc.curBlk)
			}
			return d.name
		}
	}
	n := vc.fresh(prefix, sort)
	if dbgDef != "" && n == dbgDef {
		fmt.Fprintf(os.Stderr, "define %s in blk %d\n", n, vc.curBlk)
	}
	vc.assume(eq(n, term))
	vc.defMemo[key] = append(vc.defMemo[key], memoDef{n, vc.curBlk})
	return n
}

// checkedGoal evaluates a clause of the function under verification in a position where it is
// CHECKED. A clause that cannot be evaluated on the current code (a local it names is gone or
// has another type) is not established: its goal is false, and the reason is returned. (In
// assumed positions such a clause is an engine error, or, for loop invariants, is dropped,
// since the corresponding entry/step obligation already fails.)
func (vc *VC) checkedGoal(ctx *SpecCtx, e SExpr) (string, string) {
	n := len(vc.errs)
	g := ctx.evalBool(e)
	if len(vc.errs) > n {
		why := strings.Join(vc.errs[n:], "; ")
		if strings.Contains(why, "unknown identifier") || strings.Contains(why, "is ambiguous") {
			// a name the clause uses does not exist (any more): possibly a mere renaming, so
			// this is "cannot decide" (engine error, kept in vc.errs), not a failed obligation:
			// the clause is neither posed nor assumed
			return "true", ""
		}
		vc.errs = vc.errs[:n]
		return "false", " [the clause cannot be evaluated on the current code: " + why + "]"
	}
	return g, ""
}

// assumedClause evaluates a clause of a callee's contract in a position where it is ASSUMED. A
// clause that cannot be evaluated against the callee's current signature (a parameter it names is
// gone, the result has another shape) contributes nothing: the error is kept (engine error unless
// real violations are reported) and the possibly ill-sorted term is not emitted.
func (vc *VC) assumedClause(ctx *SpecCtx, e SExpr) string {
	n := len(vc.errs)
	g := ctx.evalBool(e)
	if len(vc.errs) > n {
		return "true"
	}
	return g
}

func (vc *VC) siteName(kind string) string {
	vc.sites[kind]++
	return fmt.Sprintf("%s#%d", kind, vc.sites[kind])
}

var dbgSplit = os.Getenv("GOVC_SPLIT") != ""

// conjuncts of a goal of the shape (=> A (and g1 g2 ...)) or (and g1 ...), for diagnosis.
func goalConjuncts(goal string) []string {
	pre := ""
	g := goal
	for strings.HasPrefix(g, "(=> ") {
		parts := splitTop(g[4 : len(g)-1])
		if len(parts) != 2 {
			break
		}
		pre += "(=> " + parts[0] + " "
		g = parts[1]
	}
	if !strings.HasPrefix(g, "(and ") {
		return nil
	}
	var out []string
	for _, p := range splitTop(g[5 : len(g)-1]) {
		out = append(out, pre+p+strings.Repeat(")", strings.Count(pre, "(=> ")))
	}
	return out
}

func (vc *VC) oblige(name, kind, goal string, props []string, where, src string) *Oblig {
	if dbgSplit && (kind == "inv.step" || kind == "inv.entry" || kind == "post" || kind == "pre") {
		if cs := goalConjuncts(goal); len(cs) > 1 {
			var last *Oblig
			for i, c := range cs {
				last = &Oblig{Name: fmt.Sprintf("%s/%s~c%d", vc.fn, name, i+1), Kind: kind, Goal: c, NLines: len(vc.lines), Props: props, Where: where, Func: vc.fn, Src: src, Blk: vc.curBlk}
				vc.obls = append(vc.obls, last)
			}
			return last
		}
	}
	o := &Oblig{Name: vc.fn + "/" + name, Kind: kind, Goal: goal, NLines: len(vc.lines), Props: props, Where: where, Func: vc.fn, Src: src, Blk: vc.curBlk}
	if kind == "post" {
		o.Res = vc.curRes
	}
	vc.obls = append(vc.obls, o)
	return o
}

func (vc *VC) errorf(format string, a ...any) {
	vc.errs = append(vc.errs, fmt.Sprintf(format, a...))
}

// literal returns the constant for a string literal.
func (vc *VC) literal(s string) string {
	if s == "" {
		return "sempty"
	}
	if n, ok := vc.lits[s]; ok {
		return n
	}
	n := q(fmt.Sprintf("lit#%d %s", len(vc.lits), sanitize(s)))
	vc.lits[s] = n
	vc.litOrd = append(vc.litOrd, s)
	vc.declare(n, "Str")
	b := []byte(s)
	vc.assume(eq(app("slen", n), num(int64(len(b)))))
	if len(b) <= 64 {
		for i, c := range b {
			vc.assume(eq(app("sat", n, num(int64(i))), num(int64(c))))
		}
	}
	if len(b) == 1 {
		vc.assume(eq(n, app("schr", num(int64(b[0])))))
	}
	// distinct from all earlier literals
	for _, o := range vc.litOrd[:len(vc.litOrd)-1] {
		vc.assume(not(eq(n, vc.lits[o])))
	}
	return n
}

func sanitize(s string) string {
	var b strings.Builder
	for _, c := range s {
		if (c >= 'a' && c <= 'z') || (c >= 'A' && c <= 'Z') || (c >= '0' && c <= '9') || strings.ContainsRune("_-+*/%<>=.,:;!?()[]{} '", c) {
			b.WriteRune(c)
		} else {
			fmt.Fprintf(&b, "~%x", c)
		}
		if b.Len() > 24 {
			break
		}
	}
	return b.String()
}

// ---- heap ----

type Heap struct {
	ver    map[string]string
	now    string
	gen    int
	genNow string // allocation counter when the generation started ("" = function entry)
}

func (h *Heap) clone() *Heap {
	n := &Heap{ver: map[string]string{}, now: h.now, gen: h.gen, genNow: h.genNow}
	for k, v := range h.ver {
		n.ver[k] = v
	}
	return n
}

func (vc *VC) compSortOf(elem string) string {
	return fmt.Sprintf("(Array Int (Array Int %s))", elem)
}

// fullSort is the SMT sort of a heap component (map components are one-level).
func (vc *VC) fullSort(comp, elem string) string {
	if elem == "MapDom" || elem == "MapVal" {
		return vc.mapSorts[comp]
	}
	return vc.compSortOf(elem)
}

func (vc *VC) regComp(comp, elemSort string) {
	if _, ok := vc.comps[comp]; !ok {
		vc.comps[comp] = elemSort
		vc.compOrd = append(vc.compOrd, comp)
	}
}

// cur returns the current version of a heap component.
func (vc *VC) cur(h *Heap, comp, elemSort string) string {
	vc.regComp(comp, elemSort)
	if v, ok := h.ver[comp]; ok {
		return v
	}
	name := q(fmt.Sprintf("%s@g%d", strings.Trim(comp, "|"), h.gen))
	if !vc.declared[name] {
		vc.declare(name, vc.fullSort(comp, elemSort))
		bound := "now0"
		if h.genNow != "" {
			bound = h.genNow
		}
		vc.refBound(name, elemSort, bound, 2)
	}
	return name
}

func (vc *VC) setComp(h *Heap, comp, elemSort, term string) {
	vc.regComp(comp, elemSort)
	n := vc.fresh(strings.Trim(comp, "|"), vc.fullSort(comp, elemSort))
	vc.assume(eq(n, term))
	h.ver[comp] = n
	vc.noteVer(n, h.now)
}

func (vc *VC) noteVer(ver, now string) {
	if vc.verNow == nil {
		vc.verNow = map[string]string{}
	}
	vc.verNow[ver] = now
}

// boundOf: every reference stored in the current version of comp is below this counter value.
func (vc *VC) boundOf(h *Heap, comp string) string {
	if v, ok := h.ver[comp]; ok {
		if n, ok := vc.verNow[v]; ok {
			return n
		}
		return h.now
	}
	if h.genNow != "" {
		return h.genNow
	}
	return "now0"
}

func (vc *VC) havocComp(h *Heap, comp, elemSort string) {
	vc.regComp(comp, elemSort)
	h.ver[comp] = vc.fresh(strings.Trim(comp, "|"), vc.fullSort(comp, elemSort))
	vc.noteVer(h.ver[comp], h.now)
	vc.refBound(h.ver[comp], elemSort, h.now, 2)
}

// refBound states heap well-formedness for a version of a pointer- or slice-valued component:
// every reference stored in it was allocated before the counter value `bound` (so a later
// allocation cannot alias it). depth 2 = component, 1 = row, 0 = single cell.
func (vc *VC) refBound(term, elemSort, bound string, depth int) {
	var fact func(x string) string
	switch elemSort {
	case "Ptr":
		fact = func(x string) string {
			return and(app("<=", "0", app("pref", x)), app("<", app("pref", x), bound), app("<=", "0", app("pidx", x)))
		}
	case "Slice":
		fact = func(x string) string {
			return and(app("<=", "0", app("sref", x)), app("<", app("sref", x), bound), app("<=", "0", app("slo", x)), app("<=", "0", app("sln", x)),
				app("<=", app("sln", x), app("scp", x)), implies(eq(app("sref", x), "0"), and(eq(app("sln", x), "0"), eq(app("scp", x), "0"))))
		}
	default:
		return
	}
	switch depth {
	case 2:
		// only rows of objects allocated before `bound`: rows of not-yet-allocated references
		// stand for whatever a later allocation puts there and must stay unconstrained
		cell := app("select", app("select", term, "r!w"), "i!w")
		vc.assume(fmt.Sprintf("(forall ((r!w Int) (i!w Int)) (! (=> (< r!w %s) %s) :pattern (%s)))", bound, fact(cell), cell))
	case 1:
		cell := app("select", term, "i!w")
		vc.assume(fmt.Sprintf("(forall ((i!w Int)) (! %s :pattern (%s)))", fact(cell), cell))
	case 0:
		vc.assume(fact(term))
	}
}

// havocRow replaces one row (all cells with reference ref) of the component by arbitrary values.
func (vc *VC) havocRow(h *Heap, comp, elemSort, ref string) {
	row := vc.fresh("row "+strings.Trim(comp, "|"), fmt.Sprintf("(Array Int %s)", elemSort))
	vc.refBound(row, elemSort, h.now, 1)
	vc.setComp(h, comp, elemSort, app("store", vc.cur(h, comp, elemSort), ref, row))
}

func (vc *VC) havocCell(h *Heap, comp, elemSort, ref, idx string) {
	c := vc.fresh("cell "+strings.Trim(comp, "|"), elemSort)
	vc.refBound(c, elemSort, h.now, 0)
	vc.setComp(h, comp, elemSort, store2(vc.cur(h, comp, elemSort), ref, idx, c))
}

// havocAll forgets everything about the heap.
func (vc *VC) havocAll(h *Heap) {
	h.ver = map[string]string{}
	vc.nfresh++
	h.gen = vc.nfresh
	h.genNow = h.now
}

type memoDef struct {
	name string
	blk  int
}
