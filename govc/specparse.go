package main

import (
	"fmt"
	"strconv"
	"strings"
	"unicode"
)

// ---- Spec expression AST ----

type SExpr interface{ String() string }

type (
	SIdent struct{ Name string }
	SNum   struct{ V int64 }
	SStr   struct{ V string }
	SBool  struct{ V bool }
	SNil   struct{}
	SUnary struct {
		Op string
		X  SExpr
	}
	SBinary struct {
		Op   string
		X, Y SExpr
	}
	SCall struct {
		Fn   string
		Args []SExpr
	}
	SField struct {
		X    SExpr
		Name string
	}
	SIndex struct{ X, I SExpr }
	SSlice struct{ X, Lo, Hi SExpr }
	SQuant struct {
		Forall   bool
		Vars     []SBinder
		Triggers [][]SExpr
		Body     SExpr
	}
	SOld  struct{ X SExpr }
	SCond struct{ C, A, B SExpr }
	SLet  struct {
		Name string
		V, B SExpr
	}
	SIs struct {
		X    SExpr
		Type string
	}
	SAs struct {
		X    SExpr
		Type string
	}
)

type SBinder struct{ Name, Sort string }

func (e SIdent) String() string  { return e.Name }
func (e SNum) String() string    { return fmt.Sprint(e.V) }
func (e SStr) String() string    { return strconv.Quote(e.V) }
func (e SBool) String() string   { return fmt.Sprint(e.V) }
func (e SNil) String() string    { return "nil" }
func (e SUnary) String() string  { return e.Op + e.X.String() }
func (e SBinary) String() string { return "(" + e.X.String() + " " + e.Op + " " + e.Y.String() + ")" }
func (e SCall) String() string {
	s := []string{}
	for _, a := range e.Args {
		s = append(s, a.String())
	}
	return e.Fn + "(" + strings.Join(s, ", ") + ")"
}
func (e SField) String() string { return e.X.String() + "." + e.Name }
func (e SIndex) String() string { return e.X.String() + "[" + e.I.String() + "]" }
func (e SSlice) String() string {
	lo, hi := "", ""
	if e.Lo != nil {
		lo = e.Lo.String()
	}
	if e.Hi != nil {
		hi = e.Hi.String()
	}
	return e.X.String() + "[" + lo + ":" + hi + "]"
}
func (e SQuant) String() string {
	k := "exists"
	if e.Forall {
		k = "forall"
	}
	vs := []string{}
	for _, v := range e.Vars {
		vs = append(vs, v.Name+" "+v.Sort)
	}
	return k + " " + strings.Join(vs, ", ") + " :: " + e.Body.String()
}
func (e SOld) String() string { return "old(" + e.X.String() + ")" }
func (e SCond) String() string {
	return "(" + e.C.String() + " ? " + e.A.String() + " : " + e.B.String() + ")"
}
func (e SLet) String() string { return "let " + e.Name + " := " + e.V.String() + " in " + e.B.String() }
func (e SIs) String() string  { return e.X.String() + " is " + e.Type }
func (e SAs) String() string  { return e.X.String() + " as " + e.Type }

// ---- lexer ----

type stok struct {
	kind string // id num str op eof
	text string
	pos  int
}

func slex(src string) ([]stok, error) {
	var toks []stok
	i := 0
	ops := []string{"<==>", "==>", "::", ":=", "==", "!=", "<=", ">=", "&&", "||", "++"}
	for i < len(src) {
		c := rune(src[i])
		switch {
		case unicode.IsSpace(c):
			i++
		case unicode.IsLetter(c) || c == '_':
			j := i
			for j < len(src) && (unicode.IsLetter(rune(src[j])) || unicode.IsDigit(rune(src[j])) || src[j] == '_') {
				j++
			}
			toks = append(toks, stok{"id", src[i:j], i})
			i = j
		case unicode.IsDigit(c):
			j := i
			for j < len(src) && (unicode.IsDigit(rune(src[j])) || src[j] == 'x' || (src[j] >= 'a' && src[j] <= 'f') || (src[j] >= 'A' && src[j] <= 'F')) {
				j++
			}
			toks = append(toks, stok{"num", src[i:j], i})
			i = j
		case c == '"':
			j := i + 1
			for j < len(src) && src[j] != '"' {
				if src[j] == '\\' {
					j++
				}
				j++
			}
			if j >= len(src) {
				return nil, fmt.Errorf("unterminated string at %d", i)
			}
			s, err := strconv.Unquote(src[i : j+1])
			if err != nil {
				return nil, fmt.Errorf("bad string %s: %v", src[i:j+1], err)
			}
			toks = append(toks, stok{"str", s, i})
			i = j + 1
		case c == '\'':
			j := i + 1
			for j < len(src) && src[j] != '\'' {
				if src[j] == '\\' {
					j++
				}
				j++
			}
			if j >= len(src) {
				return nil, fmt.Errorf("unterminated char at %d", i)
			}
			r, _, _, err := strconv.UnquoteChar(src[i+1:j], '\'')
			if err != nil {
				return nil, fmt.Errorf("bad char %s: %v", src[i:j+1], err)
			}
			toks = append(toks, stok{"num", fmt.Sprint(int(r)), i})
			i = j + 1
		default:
			matched := false
			for _, op := range ops {
				if strings.HasPrefix(src[i:], op) {
					toks = append(toks, stok{"op", op, i})
					i += len(op)
					matched = true
					break
				}
			}
			if !matched {
				toks = append(toks, stok{"op", string(c), i})
				i++
			}
		}
	}
	toks = append(toks, stok{"eof", "", len(src)})
	return toks, nil
}

type sparser struct {
	toks []stok
	p    int
	src  string
}

func parseSpecExpr(src string) (e SExpr, err error) {
	toks, err := slex(src)
	if err != nil {
		return nil, err
	}
	ps := &sparser{toks: toks, src: src}
	defer func() {
		if r := recover(); r != nil {
			if s, ok := r.(specErr); ok {
				err = fmt.Errorf("%s in %q", string(s), src)
				return
			}
			panic(r)
		}
	}()
	e = ps.expr()
	if ps.peek().kind != "eof" {
		ps.fail("unexpected " + ps.peek().text)
	}
	return e, nil
}

type specErr string

func (p *sparser) fail(msg string) { panic(specErr(fmt.Sprintf("%s at %d", msg, p.peek().pos))) }
func (p *sparser) peek() stok      { return p.toks[p.p] }
func (p *sparser) next() stok      { t := p.toks[p.p]; p.p++; return t }
func (p *sparser) isOp(s string) bool {
	t := p.peek()
	return t.kind == "op" && t.text == s
}
func (p *sparser) isId(s string) bool {
	t := p.peek()
	return t.kind == "id" && t.text == s
}
func (p *sparser) expect(s string) {
	if !p.isOp(s) {
		p.fail("expected " + s + " got " + p.peek().text)
	}
	p.next()
}

func (p *sparser) expr() SExpr {
	if p.isId("forall") || p.isId("exists") {
		fa := p.next().text == "forall"
		var vars []SBinder
		for {
			if p.peek().kind != "id" {
				p.fail("binder expected")
			}
			n := p.next().text
			sort := "Int"
			if p.peek().kind == "id" {
				sort = p.typeName()
			} else if p.isOp("*") || p.isOp("[") || p.isOp("(") {
				sort = p.typeName()
			}
			vars = append(vars, SBinder{n, sort})
			if p.isOp(",") {
				p.next()
				continue
			}
			break
		}
		p.expect("::")
		var trig [][]SExpr
		for p.isOp("{") {
			p.next()
			var t []SExpr
			for {
				t = append(t, p.expr())
				if p.isOp(",") {
					p.next()
					continue
				}
				break
			}
			p.expect("}")
			trig = append(trig, t)
		}
		body := p.expr()
		return SQuant{fa, vars, trig, body}
	}
	if p.isId("let") {
		p.next()
		n := p.next().text
		p.expect(":=")
		v := p.expr()
		if !p.isId("in") {
			p.fail("expected in")
		}
		p.next()
		b := p.expr()
		return SLet{n, v, b}
	}
	c := p.iff()
	if p.isOp("?") {
		p.next()
		a := p.expr()
		p.expect(":")
		b := p.expr()
		return SCond{c, a, b}
	}
	return c
}

func (p *sparser) iff() SExpr {
	x := p.imp()
	for p.isOp("<==>") {
		p.next()
		y := p.imp()
		x = SBinary{"<==>", x, y}
	}
	return x
}

func (p *sparser) imp() SExpr {
	x := p.or()
	if p.isOp("==>") {
		p.next()
		var y SExpr
		if p.isId("forall") || p.isId("exists") || p.isId("let") {
			y = p.expr()
		} else {
			y = p.imp()
		}
		return SBinary{"==>", x, y}
	}
	return x
}

func (p *sparser) or() SExpr {
	x := p.and()
	for p.isOp("||") {
		p.next()
		x = SBinary{"||", x, p.and()}
	}
	return x
}

func (p *sparser) and() SExpr {
	x := p.cmp()
	for p.isOp("&&") {
		p.next()
		if p.isId("forall") || p.isId("exists") {
			x = SBinary{"&&", x, p.expr()}
			return x
		}
		x = SBinary{"&&", x, p.cmp()}
	}
	return x
}

func isCmp(s string) bool {
	switch s {
	case "==", "!=", "<", "<=", ">", ">=":
		return true
	}
	return false
}

func (p *sparser) cmp() SExpr {
	x := p.add()
	var res SExpr
	for p.peek().kind == "op" && isCmp(p.peek().text) {
		op := p.next().text
		y := p.add()
		c := SBinary{op, x, y}
		if res == nil {
			res = c
		} else {
			res = SBinary{"&&", res, c}
		}
		x = y
	}
	if res != nil {
		return res
	}
	return x
}

func (p *sparser) add() SExpr {
	x := p.mul()
	for p.isOp("+") || p.isOp("-") || p.isOp("++") {
		op := p.next().text
		x = SBinary{op, x, p.mul()}
	}
	return x
}

func (p *sparser) mul() SExpr {
	x := p.unary()
	for p.isOp("*") || p.isOp("/") || p.isOp("%") {
		op := p.next().text
		x = SBinary{op, x, p.unary()}
	}
	return x
}

func (p *sparser) unary() SExpr {
	if p.isOp("!") || p.isOp("-") || p.isOp("&") || p.isOp("*") {
		op := p.next().text
		return SUnary{op, p.unary()}
	}
	return p.postfix()
}

// typeName parses a Go-ish type: *pkg.Name[Arg], []T
func (p *sparser) typeName() string {
	s := ""
	if p.isOp("(") {
		// raw SMT sort such as (Array Str Bool)
		d := 0
		var parts []string
		for {
			t := p.next()
			if t.kind == "eof" {
				p.fail("unterminated sort")
			}
			if t.kind == "op" && t.text == "(" {
				d++
				parts = append(parts, "(")
				continue
			}
			if t.kind == "op" && t.text == ")" {
				d--
				parts = append(parts, ")")
				if d == 0 {
					break
				}
				continue
			}
			parts = append(parts, t.text)
		}
		out := ""
		for i, x := range parts {
			if i > 0 && x != ")" && parts[i-1] != "(" {
				out += " "
			}
			out += x
		}
		return out
	}
	for p.isOp("*") || p.isOp("[") {
		if p.isOp("*") {
			p.next()
			s += "*"
		} else {
			p.next()
			p.expect("]")
			s += "[]"
		}
	}
	if p.peek().kind != "id" {
		p.fail("type name expected")
	}
	if p.peek().text == "map" && p.toks[p.p+1].kind == "op" && p.toks[p.p+1].text == "[" {
		p.next()
		p.next()
		k := p.typeName()
		p.expect("]")
		return s + "map[" + k + "]" + p.typeName()
	}
	s += p.next().text
	for p.isOp(".") && p.toks[p.p+1].kind == "id" {
		p.next()
		s += "." + p.next().text
	}
	if p.isOp("[") && p.toks[p.p+1].kind == "id" && p.toks[p.p+2].kind == "op" && (p.toks[p.p+2].text == "]" || p.toks[p.p+2].text == ".") {
		p.next()
		s += "[" + p.typeName() + "]"
		p.expect("]")
	}
	return s
}

func (p *sparser) postfix() SExpr {
	x := p.primary()
	for {
		switch {
		case p.isOp("."):
			p.next()
			t := p.next()
			if t.kind != "id" && t.kind != "num" {
				p.fail("field name expected")
			}
			x = SField{x, t.text}
		case p.isOp("["):
			p.next()
			var lo, hi SExpr
			if !p.isOp(":") {
				lo = p.expr()
			}
			if p.isOp(":") {
				p.next()
				if !p.isOp("]") {
					hi = p.expr()
				}
				p.expect("]")
				x = SSlice{x, lo, hi}
			} else {
				p.expect("]")
				x = SIndex{x, lo}
			}
		case p.isOp("("):
			name := ""
			switch f := x.(type) {
			case SIdent:
				name = f.Name
			case SField:
				// pkg.func
				if id, ok := f.X.(SIdent); ok {
					name = id.Name + "." + f.Name
				}
			}
			if name == "" {
				p.fail("call of non-name")
			}
			p.next()
			var args []SExpr
			for !p.isOp(")") {
				if name == "box" && len(args) == 0 && p.peek().kind == "id" && p.peek().text == "map" {
					args = append(args, SIdent{p.typeName()})
					if p.isOp(",") {
						p.next()
					}
					continue
				}
				args = append(args, p.expr())
				if p.isOp(",") {
					p.next()
				}
			}
			p.expect(")")
			if name == "old" {
				if len(args) != 1 {
					p.fail("old takes one argument")
				}
				x = SOld{args[0]}
			} else {
				x = SCall{name, args}
			}
		case p.isId("is"):
			p.next()
			x = SIs{x, p.typeName()}
		case p.isId("as"):
			p.next()
			x = SAs{x, p.typeName()}
		default:
			return x
		}
	}
}

func (p *sparser) primary() SExpr {
	t := p.next()
	switch t.kind {
	case "num":
		v, err := strconv.ParseInt(t.text, 0, 64)
		if err != nil {
			p.fail("bad number " + t.text)
		}
		return SNum{v}
	case "str":
		return SStr{t.text}
	case "id":
		switch t.text {
		case "true":
			return SBool{true}
		case "false":
			return SBool{false}
		case "nil":
			return SNil{}
		}
		return SIdent{t.text}
	case "op":
		if t.text == "(" {
			e := p.expr()
			p.expect(")")
			return e
		}
	}
	p.p--
	p.fail("unexpected token " + t.text)
	return nil
}
