package main

import (
	"fmt"
	"go/ast"
	"go/constant"
	"go/token"
	"go/types"
	"sort"
	"strings"

	"golang.org/x/tools/go/ssa"
)

// SpecCtx evaluates contract expressions to SMT terms in a given state.
type SpecCtx struct {
	f        *Frame
	fn       *ssa.Function
	params   []Val
	heap     *Heap
	old      *Heap
	binds    map[string]Val
	result   *Val
	env      map[ssa.Value]Val
	pkg      *types.Package
	quiet    bool
	failed   bool
	depth    int
	block    *ssa.BasicBlock // loop header whose phis take precedence when a name is ambiguous
	qdepth   int             // nesting depth of quantifiers (bound names are made unique per depth)
	totalAs  bool            // inside a modifies expression: x as *T is nil when x holds another type
	asGuards *[]string       // dynamic-type conditions met while evaluating a modifies expression
	callArgs []Val           // atcall context: arg0, arg1, ... denote the actual arguments
	locals   bool            // loop context: a name denotes the current value of the local variable, not the parameter's entry value
}

func (f *Frame) specCtx(h *Heap, env map[ssa.Value]Val) *SpecCtx {
	return &SpecCtx{f: f, fn: f.fn, params: f.params, heap: h, old: f.entry, binds: f.lets, env: env, pkg: pkgOf(f.fn)}
}

// qname: the SMT name of a bound variable; nested quantifiers (also through predicate
// expansion) get distinct names so that an inner binder never captures an outer variable.
func (c *SpecCtx) qname(name string) string {
	if c.qdepth == 0 {
		return "q!" + name
	}
	return fmt.Sprintf("q!%s!%d", name, c.qdepth)
}

func (c *SpecCtx) errorf(format string, a ...any) {
	c.failed = true
	if !c.quiet {
		c.f.vc.errorf("spec: "+format, a...)
	}
}

func (c *SpecCtx) with(binds map[string]Val) *SpecCtx {
	n := *c
	n.binds = map[string]Val{}
	for k, v := range c.binds {
		n.binds[k] = v
	}
	for k, v := range binds {
		n.binds[k] = v
	}
	return &n
}

func (c *SpecCtx) evalBool(e SExpr) string {
	v := c.eval(e)
	if v.S != "Bool" {
		c.errorf("expected Bool, got %s in %s", v.S, e)
		return "true"
	}
	return v.E
}

func boolV(e string) Val { return Val{S: "Bool", E: e, T: types.Typ[types.Bool]} }
func intV(e string) Val  { return Val{S: "Int", E: e, T: types.Typ[types.Int]} }
func strV(e string) Val  { return Val{S: "Str", E: e, T: types.Typ[types.String]} }

// resolveType resolves a type name written in a contract.
func (c *SpecCtx) resolveType(name string) (types.Type, string) {
	switch name {
	case "Int", "int":
		return types.Typ[types.Int], "Int"
	case "Bool", "bool":
		return types.Typ[types.Bool], "Bool"
	case "Str", "string":
		return types.Typ[types.String], "Str"
	case "Ptr":
		return nil, "Ptr"
	case "Slice":
		return nil, "Slice"
	case "Iface", "any":
		return types.NewInterfaceType(nil, nil), "Iface"
	}
	if strings.HasPrefix(name, "Array<") || strings.HasPrefix(name, "(Array") {
		return nil, name
	}
	t := c.f.en.lookupType(name, c.pkg)
	if t == nil {
		c.errorf("unknown type %s", name)
		return types.Typ[types.Int], "Int"
	}
	return t, c.f.en.u.sortOf(t)
}

func (en *Engine) lookupType(name string, pkg *types.Package) types.Type {
	if strings.HasPrefix(name, "*") {
		t := en.lookupType(name[1:], pkg)
		if t == nil {
			return nil
		}
		return types.NewPointer(t)
	}
	if strings.HasPrefix(name, "[]") {
		t := en.lookupType(name[2:], pkg)
		if t == nil {
			return nil
		}
		return types.NewSlice(t)
	}
	if strings.HasPrefix(name, "map[") {
		d := 0
		for j := 3; j < len(name); j++ {
			if name[j] == '[' {
				d++
			} else if name[j] == ']' {
				d--
				if d == 0 {
					k, v := en.lookupType(name[4:j], pkg), en.lookupType(name[j+1:], pkg)
					if k == nil || v == nil {
						return nil
					}
					return types.NewMap(k, v)
				}
			}
		}
		return nil
	}
	switch name {
	case "int":
		return types.Typ[types.Int]
	case "string":
		return types.Typ[types.String]
	case "bool":
		return types.Typ[types.Bool]
	case "any":
		return types.NewInterfaceType(nil, nil)
	}
	targ := ""
	if j := strings.Index(name, "["); j > 0 && strings.HasSuffix(name, "]") {
		targ = name[j+1 : len(name)-1]
		name = name[:j]
	}
	var obj types.Object
	if j := strings.Index(name, "."); j > 0 {
		pn, tn := name[:j], name[j+1:]
		if sp, ok := en.pkgs[pn]; ok {
			obj = sp.Pkg.Scope().Lookup(tn)
		} else if pkg != nil {
			for _, imp := range pkg.Imports() {
				if imp.Name() == pn {
					obj = imp.Scope().Lookup(tn)
				}
			}
		}
		if obj == nil {
			// search all packages of the program
			for _, p := range en.prog.AllPackages() {
				if p.Pkg.Name() == pn {
					if o := p.Pkg.Scope().Lookup(tn); o != nil {
						obj = o
						break
					}
				}
			}
		}
	} else {
		if pkg != nil {
			obj = pkg.Scope().Lookup(name)
		}
		if obj == nil {
			obj = types.Universe.Lookup(name)
		}
	}
	tn, ok := obj.(*types.TypeName)
	if !ok {
		return nil
	}
	t := tn.Type()
	if targ != "" {
		ta := en.lookupType(targ, pkg)
		if named, ok := t.(*types.Named); ok && ta != nil {
			inst, err := types.Instantiate(nil, named, []types.Type{ta}, false)
			if err == nil {
				return inst
			}
		}
		return nil
	}
	return t
}

func (c *SpecCtx) lookupIdent(name string) (Val, bool) {
	if v, ok := c.binds[name]; ok {
		return v, true
	}
	if name == "result" && c.result != nil {
		return *c.result, true
	}
	if name == "result" && c.result == nil && c.locals {
		if v, ok := c.lookupLocal(name); ok {
			return v, true
		}
	}
	if name == "now" {
		return intV(c.heap.now), true
	}
	if strings.HasPrefix(name, "arg") && c.callArgs != nil {
		var k int
		if _, err := fmt.Sscanf(name, "arg%d", &k); err == nil && k < len(c.callArgs) {
			return c.callArgs[k], true
		}
	}
	if name == "rangevisited" && c.block != nil && c.f != nil {
		// the set of keys already visited by the map iteration of the loop whose header is c.block
		for _, ins := range c.block.Instrs {
			if nx, ok := ins.(*ssa.Next); ok && !nx.IsString {
				if rg, ok := nx.Iter.(*ssa.Range); ok {
					if mt, ok := rg.X.Type().Underlying().(*types.Map); ok {
						if it, ok := c.f.env[nx.Iter]; ok {
							ks, _ := c.f.mapSorts(mt)
							srt := fmt.Sprintf("(Array %s Bool)", ks)
							return Val{S: srt, E: sel2(c.f.vc.cur(c.heap, q("E mapvisited "+ks), srt), pref(it.E), "0")}, true
						}
					}
				}
			}
		}
	}
	if name == "rangepos" && c.block != nil && c.f != nil {
		// byte position of the string iterator of the loop whose header is c.block
		for _, ins := range c.block.Instrs {
			if nx, ok := ins.(*ssa.Next); ok && nx.IsString {
				if it, ok := c.f.env[nx.Iter]; ok {
					return intV(sel2(c.f.vc.cur(c.heap, q("E iterpos"), "Int"), pref(it.E), "0")), true
				}
			}
		}
	}
	if c.locals {
		if v, ok := c.lookupLocal(name); ok {
			return v, true
		}
	}
	if c.fn != nil {
		for i, p := range c.fn.Params {
			if p.Name() == name && i < len(c.params) {
				return c.params[i], true
			}
		}
		// named results
		if c.result != nil {
			res := c.fn.Signature.Results()
			for i := 0; i < res.Len(); i++ {
				if res.At(i).Name() == name {
					if res.Len() == 1 {
						return *c.result, true
					}
					if i < len(c.result.Tuple) {
						return c.result.Tuple[i], true
					}
				}
			}
		}
	}
	if v, ok := c.lookupLocal(name); ok {
		return v, true
	}
	return c.lookupGlobalName(name)
}

// evalBlock: the basic block at which the expression is evaluated (for scoping of local names).
func (c *SpecCtx) evalBlock() *ssa.BasicBlock {
	if c.block != nil {
		return c.block
	}
	if c.f != nil && c.f.depth == 0 && c.f.vc.curBlk >= 0 && c.f.vc.curBlk < len(c.f.fn.Blocks) {
		return c.f.fn.Blocks[c.f.vc.curBlk]
	}
	return nil
}

// dbgValue picks, among the SSA values that carried the source name, the latest one whose
// definition dominates the evaluation point; without one, the most recent (legacy behaviour).
func (c *SpecCtx) dbgValue(name string) ssa.Value {
	vs := c.f.dbg[name]
	if len(vs) == 0 {
		return nil
	}
	if v := c.dbgDominating(name); v != nil {
		return v
	}
	return vs[len(vs)-1]
}

// renamed gives the current name of a local the contract names (rename inference, check.go).
func (c *SpecCtx) renamed(name string) string {
	if c.f != nil && len(c.f.dbg[name]) == 0 && c.fn != nil {
		if nn := c.f.en.renames[funcKey(c.fn)][name]; nn != "" {
			return nn
		}
	}
	return name
}

func (c *SpecCtx) dbgDominating(name string) ssa.Value {
	cur := c.evalBlock()
	if cur == nil {
		return nil
	}
	vs := c.f.dbg[name]
	for i := len(vs) - 1; i >= 0; i-- {
		ins, ok := vs[i].(ssa.Instruction)
		if !ok {
			return vs[i] // parameters dominate everything
		}
		if b := ins.Block(); b == cur || b.Dominates(cur) {
			return vs[i]
		}
	}
	return nil
}

func (c *SpecCtx) lookupLocal(name string) (Val, bool) {
	// locals of the frame's function
	if c.f != nil && c.fn == c.f.fn {
		for v, x := range c.env {
			if phi, ok := v.(*ssa.Phi); ok && phi.Comment == name {
				return x, true
			}
		}
		var found []Val
		var keys []ssa.Value
		for v := range c.f.env {
			keys = append(keys, v)
		}
		sort.Slice(keys, func(i, j int) bool { return keys[i].Name() < keys[j].Name() })
		for _, v := range keys {
			x := c.f.env[v]
			switch vv := v.(type) {
			case *ssa.Phi:
				if vv.Comment == name {
					if _, over := c.env[v]; !over {
						found = append(found, x)
					}
				}
			case *ssa.Alloc:
				if vv.Comment == name {
					found = append(found, c.f.load(x, c.heap, "false", token.NoPos))
				}
			}
		}
		if cur := c.evalBlock(); cur != nil && c.block == nil && (len(found) > 1 || (len(found) >= 1 && len(c.f.dbg[name]) > 0)) {
			// several definitions carry the name (reassignment): the visible one is the closest
			// definition that dominates the evaluation point
			var best ssa.Value
			var bestBlk *ssa.BasicBlock
			consider := func(v ssa.Value) {
				ins, ok := v.(ssa.Instruction)
				if !ok {
					if best == nil {
						best = v
					}
					return
				}
				b := ins.Block()
				if b != cur && !b.Dominates(cur) {
					return
				}
				if _, isAlloc := v.(*ssa.Alloc); isAlloc {
					return
				}
				if bestBlk == nil || bestBlk.Dominates(b) {
					best, bestBlk = v, b
				}
			}
			for _, v := range keys {
				if phi, ok := v.(*ssa.Phi); ok && phi.Comment == name {
					if _, over := c.env[v]; !over {
						consider(v)
					}
				}
			}
			for k, v := range c.f.dbg[name] {
				if _, isPhi := v.(*ssa.Phi); isPhi {
					continue
				}
				// the assignment takes effect where it stands (its DebugRef), also when the value
				// assigned is a constant or was computed earlier: the latest assignment that
				// dominates the evaluation point is the visible one
				if k < len(c.f.dbgBlk[name]) {
					b := c.f.dbgBlk[name][k]
					if b != cur && !b.Dominates(cur) {
						continue
					}
					if _, isAlloc := v.(*ssa.Alloc); isAlloc {
						continue
					}
					if bestBlk == nil || bestBlk == b || bestBlk.Dominates(b) {
						best, bestBlk = v, b
					}
					continue
				}
				consider(v)
			}
			if best != nil {
				if x, ok := c.f.env[best]; ok {
					return x, true
				}
				if k, isConst := best.(*ssa.Const); isConst {
					return c.f.constVal(k), true
				}
			}
		}
		if len(found) > 1 && c.block != nil {
			// the visible definition is the closest one that dominates the evaluation point
			var best *ssa.Phi
			for _, v := range keys {
				phi, ok := v.(*ssa.Phi)
				if !ok || phi.Comment != name {
					continue
				}
				if _, over := c.env[v]; over {
					continue
				}
				if phi.Block() != c.block && !phi.Block().Dominates(c.block) {
					continue
				}
				if best == nil || best.Block().Dominates(phi.Block()) {
					best = phi
				}
			}
			if best != nil {
				return c.f.env[best], true
			}
		}
		if len(found) == 1 {
			return found[0], true
		}
		if len(found) == 0 {
			if v := c.dbgValue(name); v != nil {
				if x, ok := c.f.env[v]; ok {
					return x, true
				}
			}
		}
		if len(found) > 1 {
			// prefer the most recently defined: ambiguous names are an error
			c.errorf("local name %s is ambiguous in %s", name, c.fn.Name())
			return found[0], true
		}
	}
	return Val{}, false
}

func (c *SpecCtx) lookupGlobalName(name string) (Val, bool) {
	// ghost globals
	if g, ok := c.f.en.cs.GhostGlobals[name]; ok {
		_, s := c.resolveType(g)
		comp := q("GG " + name)
		return Val{S: s, E: sel2(c.f.vc.cur(c.heap, comp, s), "(- 1)", "0")}, true
	}
	// package-level constants and variables
	if c.pkg != nil {
		if obj := c.pkg.Scope().Lookup(name); obj != nil {
			return c.objVal(obj)
		}
	}
	if e, ok := c.f.en.cs.Consts[name]; ok {
		return c.eval(e), true
	}
	// constants declared inside the function under contract
	if c.fn != nil && c.fn.Syntax() != nil && c.fn.Pkg != nil {
		if info := c.f.en.tinfo[c.fn.Pkg.Pkg.Path()]; info != nil {
			var found types.Object
			ast.Inspect(c.fn.Syntax(), func(n ast.Node) bool {
				if vs, ok := n.(*ast.ValueSpec); ok {
					for _, id := range vs.Names {
						if id.Name == name {
							if o, ok := info.Defs[id].(*types.Const); ok {
								found = o
							}
						}
					}
				}
				return found == nil
			})
			if found != nil {
				return c.objVal(found)
			}
		}
	}
	return Val{}, false
}

func (c *SpecCtx) objVal(obj types.Object) (Val, bool) {
	switch o := obj.(type) {
	case *types.Const:
		switch o.Val().Kind() {
		case constant.Int:
			n, _ := constant.Int64Val(o.Val())
			return Val{S: "Int", E: num(n), T: o.Type()}, true
		case constant.Bool:
			if constant.BoolVal(o.Val()) {
				return boolV("true"), true
			}
			return boolV("false"), true
		case constant.String:
			return strV(c.f.vc.literal(constant.StringVal(o.Val()))), true
		}
	case *types.Var:
		// package-level variable: load from its global cell
		comp := q("G " + o.Pkg().Name() + "." + o.Name())
		s := c.f.en.u.sortOf(o.Type())
		base := num(-int64(c.f.en.u.fldCode(comp)) - 1)
		return Val{S: s, E: sel2(c.f.vc.cur(c.heap, comp, s), base, "0"), T: o.Type()}, true
	}
	return Val{}, false
}

func (c *SpecCtx) pkgMember(pkgName, name string) (Val, bool) {
	var scope *types.Scope
	if sp, ok := c.f.en.pkgs[pkgName]; ok {
		scope = sp.Pkg.Scope()
	} else {
		for _, p := range c.f.en.prog.AllPackages() {
			if p.Pkg.Name() == pkgName {
				scope = p.Pkg.Scope()
				break
			}
		}
	}
	if scope == nil {
		return Val{}, false
	}
	if obj := scope.Lookup(name); obj != nil {
		return c.objVal(obj)
	}
	return Val{}, false
}

func (c *SpecCtx) eval(e SExpr) Val {
	vc := c.f.vc
	u := c.f.en.u
	switch x := e.(type) {
	case SNum:
		return intV(num(x.V))
	case SBool:
		if x.V {
			return boolV("true")
		}
		return boolV("false")
	case SStr:
		return strV(vc.literal(x.V))
	case SNil:
		return Val{S: "Nil", E: "nil"}
	case SIdent:
		if v, ok := c.lookupIdent(x.Name); ok {
			return v
		}
		if c.fn != nil && c.f != nil {
			if nn := c.f.en.renames[funcKey(c.fn)][x.Name]; nn != "" {
				if v, ok := c.lookupIdent(nn); ok {
					return v
				}
			}
		}
		c.errorf("unknown identifier %s (in %s)", x.Name, c.fnName())
		return intV("0")
	case SOld:
		n := *c
		n.heap = c.old
		n.locals = false // in the entry state a name denotes the parameter
		n.env = nil
		return n.eval(x.X)
	case SLet:
		v := c.eval(x.V)
		return c.with(map[string]Val{x.Name: v}).eval(x.B)
	case SCond:
		cnd := c.evalBool(x.C)
		a, b := c.eval(x.A), c.eval(x.B)
		a, b = c.unifyNil(a, b)
		return Val{S: a.S, E: ite(cnd, a.E, b.E), T: a.T}
	case SUnary:
		switch x.Op {
		case "!":
			return boolV(not(c.evalBool(x.X)))
		case "-":
			return intV(app("-", c.eval(x.X).E))
		case "&":
			return c.addrOf(x.X)
		case "*":
			p := c.eval(x.X)
			return c.f.load(p, c.heap, "false", token.NoPos)
		}
	case SBinary:
		return c.evalBinary(x)
	case SField:
		return c.evalField(x)
	case SIndex:
		v := c.eval(x.X)
		i := c.eval(x.I)
		switch v.S {
		case "Str":
			return intV(app("sat", v.E, i.E))
		case "Slice":
			et := elemType(v.T)
			if et == nil {
				c.errorf("index of untyped slice in %s", e)
				return intV("0")
			}
			base := mkptr(sref(v.E), addShift(slo(v.E), i.E), "0")
			if isStruct(et) {
				return c.f.en.mkVal(et, c.f.loadStructAt(et, base, c.heap))
			}
			es := u.sortOf(et)
			return c.f.en.mkVal(et, sel2(vc.cur(c.heap, u.cellComp(et), es), pref(base), pidx(base)))
		case "Int":
			if mt, ok := v.T.Underlying().(*types.Map); ok {
				_, val := c.f.mapCur(mt, c.heap)
				return c.f.en.mkVal(mt.Elem(), app("select", app("select", val, v.E), i.E))
			}
		}
		if strings.HasPrefix(v.S, "(Array") {
			return Val{S: arrayElemSort(v.S), E: app("select", v.E, i.E)}
		}
		c.errorf("cannot index %s in %s", v.S, e)
		return intV("0")
	case SSlice:
		v := c.eval(x.X)
		lo := "0"
		if x.Lo != nil {
			lo = c.eval(x.Lo).E
		}
		switch v.S {
		case "Str":
			hi := app("slen", v.E)
			if x.Hi != nil {
				hi = c.eval(x.Hi).E
			}
			return strV(app("ssub", v.E, lo, hi))
		case "Slice":
			hi := sln(v.E)
			if x.Hi != nil {
				hi = c.eval(x.Hi).E
			}
			return Val{S: "Slice", E: mkslice(sref(v.E), app("+", slo(v.E), lo), app("-", hi, lo), app("-", scp(v.E), lo)), T: v.T}
		}
		c.errorf("cannot slice %s", v.S)
		return v
	case SQuant:
		binds := map[string]Val{}
		var decl []string
		for _, b := range x.Vars {
			t, s := c.resolveType(b.Sort)
			n := c.qname(b.Name)
			binds[b.Name] = Val{S: s, E: n, T: t}
			decl = append(decl, fmt.Sprintf("(%s %s)", n, s))
		}
		sub := c.with(binds)
		sub.qdepth = c.qdepth + 1
		// Index shift (DESIGN §8.4): a quantifier "forall k :: { s[k] } ..." over a slice s is
		// re-keyed by the absolute cell index j = lo(s) + k, so that its pattern is the plain
		// (select row j) without arithmetic; k becomes j - lo(s) in the body.
		if len(x.Vars) == 1 && x.Vars[0].Sort == "Int" && len(x.Triggers) > 0 {
			kname := x.Vars[0].Name
			shiftLo := ""
			ok := true
			for _, tr := range x.Triggers {
				for _, t := range tr {
					// look through field selections: { s[k].f } is keyed like { s[k] }
					for {
						fd, isF := t.(SField)
						if !isF {
							break
						}
						t = fd.X
					}
					ix, isIx := t.(SIndex)
					id, isId := SExpr(nil), false
					if isIx {
						id, isId = ix.I, true
					}
					if !isIx || !isId {
						ok = false
						continue
					}
					if bin, isBin := id.(SBinary); isBin && (bin.Op == "+" || bin.Op == "-") {
						if _, isNum := bin.Y.(SNum); isNum {
							id = bin.X // { s[k + c] }: keyed like { s[k] }
						}
					}
					if nm, is := id.(SIdent); !is || nm.Name != kname {
						ok = false
						continue
					}
					sv := sub.eval(ix.X)
					if sv.S != "Slice" {
						ok = false
						continue
					}
					if shiftLo == "" {
						shiftLo = slo(sv.E)
					} else if shiftLo != slo(sv.E) {
						ok = false
					}
				}
			}
			if ok && shiftLo != "" {
				j := c.qname(kname)
				sub.binds[kname] = Val{S: "Int", E: app("-", j, shiftLo), T: types.Typ[types.Int]}
			}
		}
		body := sub.evalBool(x.Body)
		var pats []string
		for _, tr := range x.Triggers {
			var ts []string
			for _, t := range tr {
				te := sub.eval(t).E
				// has(m, k) is (and (not (= ref 0)) (select ...)): a connective cannot be a pattern
				if strings.HasPrefix(te, "(and (not (= ") {
					if parts := splitTop(te[1 : len(te)-1]); len(parts) == 3 && strings.HasPrefix(parts[2], "(select ") {
						te = parts[2]
					}
				}
				ts = append(ts, te)
			}
			// a struct-valued trigger (mk f1 f2 ...) would only match when every field is
			// mentioned: use one pattern per field cell instead (any field read triggers)
			if len(ts) == 1 && strings.HasPrefix(ts[0], "(mk_") {
				parts := splitTop(ts[0][1 : len(ts[0])-1])
				n := 0
				for _, part := range parts[1:] {
					if strings.Contains(part, "q!") && strings.HasPrefix(part, "(select ") {
						pats = append(pats, ":pattern ("+part+")")
						n++
					}
				}
				if n > 0 {
					continue
				}
			}
			pats = append(pats, ":pattern ("+strings.Join(ts, " ")+")")
		}
		if len(pats) > 0 {
			body = "(! " + body + " " + strings.Join(pats, " ") + ")"
		}
		k := "exists"
		if x.Forall {
			k = "forall"
		}
		return boolV(fmt.Sprintf("(%s (%s) %s)", k, strings.Join(decl, " "), body))
	case SIs:
		v := c.eval(x.X)
		t, _ := c.resolveType(x.Type)
		if v.S != "Iface" {
			c.errorf("'is' on non-interface in %s", e)
			return boolV("true")
		}
		u.registerBoxed(t)
		return boolV(app("(_ is "+u.boxName(t)+")", v.E))
	case SAs:
		v := c.eval(x.X)
		t, _ := c.resolveType(x.Type)
		if v.S != "Iface" {
			// type view: re-type the value
			v.T = t
			return v
		}
		u.registerBoxed(t)
		if c.totalAs {
			// in a frame (modifies) expression a view of the wrong dynamic type designates nothing:
			// the nil pointer, whose row is never read
			if _, isPtr := t.(*types.Pointer); isPtr {
				isT := app("(_ is "+u.boxName(t)+")", v.E)
				if c.asGuards != nil {
					*c.asGuards = append(*c.asGuards, isT)
				}
				return c.f.en.mkVal(t, ite(isT, app(u.unboxName(t), v.E), nilPtr))
			}
		}
		return c.f.en.mkVal(t, app(u.unboxName(t), v.E))
	case SCall:
		return c.evalCall(x)
	}
	c.errorf("cannot evaluate %s", e)
	return intV("0")
}

func (c *SpecCtx) fnName() string {
	if c.fn != nil {
		return c.fn.Name()
	}
	return "?"
}

func arrayElemSort(s string) string {
	parts := splitTop(s[1 : len(s)-1])
	if len(parts) == 3 {
		return parts[2]
	}
	return "Int"
}

func elemType(t types.Type) types.Type {
	if t == nil {
		return nil
	}
	switch tt := t.Underlying().(type) {
	case *types.Slice:
		return tt.Elem()
	case *types.Pointer:
		return tt.Elem()
	case *types.Array:
		return tt.Elem()
	}
	return nil
}

// unifyNil gives the literal nil the sort of the other operand.
func (c *SpecCtx) unifyNil(a, b Val) (Val, Val) {
	nilOf := func(o Val) Val {
		switch o.S {
		case "Ptr":
			return Val{S: "Ptr", E: nilPtr, T: o.T}
		case "Slice":
			return Val{S: "Slice", E: nilSlice, T: o.T}
		case "Iface":
			return Val{S: "Iface", E: "inil", T: o.T}
		case "Int":
			return Val{S: "Int", E: "0", T: o.T}
		case "Fn":
			return Val{S: "Fn", E: "fnnil", T: o.T}
		}
		return o
	}
	if a.S == "Nil" && b.S != "Nil" {
		a = nilOf(b)
	}
	if b.S == "Nil" && a.S != "Nil" {
		b = nilOf(a)
	}
	return a, b
}

func (c *SpecCtx) evalBinary(x SBinary) Val {
	switch x.Op {
	case "&&":
		if a := c.evalBool(x.X); a == "false" {
			return boolV("false")
		} else {
			return boolV(and(a, c.evalBool(x.Y)))
		}
	case "||":
		return boolV(or(c.evalBool(x.X), c.evalBool(x.Y)))
	case "==>":
		// short-circuit on a statically false antecedent (site filters such as defined(x))
		if a := c.evalBool(x.X); a == "false" {
			return boolV("true")
		} else {
			return boolV(implies(a, c.evalBool(x.Y)))
		}
	case "<==>":
		return boolV(eq(c.evalBool(x.X), c.evalBool(x.Y)))
	}
	a, b := c.eval(x.X), c.eval(x.Y)
	if (a.S == "Tuple") != (b.S == "Tuple") {
		// e.g. "result == ..." after the function got a second result
		c.errorf("a tuple of results is used as one value (in %s)", c.fnName())
		return boolV("true")
	}
	a, b = c.unifyNil(a, b)
	switch x.Op {
	case "==":
		if a.S == "Slice" && b.E == nilSlice {
			return boolV(eq(sref(a.E), "0"))
		}
		if a.S == "Ptr" && b.E == nilPtr {
			return boolV(eq(pref(a.E), "0"))
		}
		if b.S == "Ptr" && a.E == nilPtr {
			return boolV(eq(pref(b.E), "0"))
		}
		return boolV(eq(a.E, b.E))
	case "!=":
		if a.S == "Slice" && b.E == nilSlice {
			return boolV(not(eq(sref(a.E), "0")))
		}
		if a.S == "Ptr" && b.E == nilPtr {
			return boolV(not(eq(pref(a.E), "0")))
		}
		if b.S == "Ptr" && a.E == nilPtr {
			return boolV(not(eq(pref(b.E), "0")))
		}
		return boolV(not(eq(a.E, b.E)))
	case "++":
		return strV(app("scat", a.E, b.E))
	}
	if a.S == "Str" {
		switch x.Op {
		case "+":
			return strV(app("scat", a.E, b.E))
		case "<=":
			return boolV(app("sle", a.E, b.E))
		case ">=":
			return boolV(app("sle", b.E, a.E))
		case "<":
			return boolV(not(app("sle", b.E, a.E)))
		case ">":
			return boolV(not(app("sle", a.E, b.E)))
		}
	}
	switch x.Op {
	case "+", "-", "*":
		return intV(app(x.Op, a.E, b.E))
	case "/":
		return intV(goDiv(a.E, b.E))
	case "%":
		return intV(goMod(a.E, b.E))
	case "<", "<=", ">", ">=":
		return boolV(app(x.Op, a.E, b.E))
	}
	c.errorf("unsupported operator %s", x.Op)
	return intV("0")
}

func (c *SpecCtx) structOf(t types.Type) (types.Type, bool) {
	if t == nil {
		return nil, false
	}
	if p, ok := t.Underlying().(*types.Pointer); ok {
		if isStruct(p.Elem()) {
			return p.Elem(), true
		}
		return nil, false
	}
	return nil, false
}

func (c *SpecCtx) ghostField(st types.Type, name string) (string, bool) {
	for _, g := range c.f.en.u.ghost[typeKey(st)] {
		if g.Name == name {
			return g.Sort, true
		}
	}
	return "", false
}

func (c *SpecCtx) evalField(x SField) Val {
	u := c.f.en.u
	vc := c.f.vc
	// package-qualified name?
	if id, ok := x.X.(SIdent); ok {
		if _, isLocal := c.lookupIdentQuiet(id.Name); !isLocal {
			if v, ok := c.pkgMember(id.Name, x.Name); ok {
				return v
			}
		}
	}
	v := c.eval(x.X)
	if v.S == "Tuple" {
		var k int
		if _, err := fmt.Sscanf(x.Name, "%d", &k); err == nil && k < len(v.Tuple) {
			return v.Tuple[k]
		}
		c.errorf("bad tuple index %s", x.Name)
		return intV("0")
	}
	if v.S == "Slice" {
		switch x.Name {
		case "ref":
			return intV(sref(v.E))
		case "lo":
			return intV(slo(v.E))
		case "cap":
			return intV(scp(v.E))
		}
	}
	if v.S == "Ptr" {
		switch x.Name {
		case "ref":
			return intV(pref(v.E))
		case "idx":
			return intV(pidx(v.E))
		}
	}
	if st, ok := c.structOf(v.T); ok {
		if gs, ok := c.ghostField(st, x.Name); ok {
			comp := q("H " + typeKey(st) + "." + x.Name)
			_, s := c.resolveType(gs)
			return Val{S: s, E: sel2(vc.cur(c.heap, comp, s), pref(v.E), pidx(v.E)), T: specGoType(s)}
		}
		stt := st.Underlying().(*types.Struct)
		for i := 0; i < stt.NumFields(); i++ {
			if stt.Field(i).Name() == x.Name {
				ft := stt.Field(i).Type()
				comp := u.fieldComp(st, x.Name)
				return c.f.en.mkVal(ft, sel2(vc.cur(c.heap, comp, u.sortOf(ft)), pref(v.E), pidx(v.E)))
			}
		}
		c.errorf("no field %s in %s", x.Name, typeKey(st))
		return intV("0")
	}
	if v.T != nil && isStruct(v.T) {
		si := u.structInfo(v.T)
		for i := 0; i < si.St.NumFields(); i++ {
			if si.St.Field(i).Name() == x.Name {
				// (sel (mk a b c)) is simplified to the component
				if strings.HasPrefix(v.E, "("+u.mkName(si)+" ") {
					parts := splitTop(v.E[len(u.mkName(si))+2 : len(v.E)-1])
					if len(parts) == si.St.NumFields() {
						return c.f.en.mkVal(si.St.Field(i).Type(), parts[i])
					}
				}
				return c.f.en.mkVal(si.St.Field(i).Type(), app(u.selName(si, x.Name), v.E))
			}
		}
	}
	c.errorf("cannot select .%s from %s (%v)", x.Name, v.S, v.T)
	return intV("0")
}

func specGoType(s string) types.Type {
	switch s {
	case "Int":
		return types.Typ[types.Int]
	case "Bool":
		return types.Typ[types.Bool]
	case "Str":
		return types.Typ[types.String]
	}
	return nil
}

func (c *SpecCtx) lookupIdentQuiet(name string) (Val, bool) {
	n := *c
	n.quiet = true
	return n.lookupIdent(name)
}

func (c *SpecCtx) addrOf(e SExpr) Val {
	u := c.f.en.u
	switch x := e.(type) {
	case SIndex:
		v := c.eval(x.X)
		i := c.eval(x.I)
		if v.S == "Slice" {
			et := elemType(v.T)
			var pt types.Type
			if et != nil {
				pt = types.NewPointer(et)
			}
			return Val{S: "Ptr", E: mkptr(sref(v.E), app("+", slo(v.E), i.E), "0"), T: pt}
		}
	case SField:
		v := c.eval(x.X)
		if st, ok := c.structOf(v.T); ok {
			comp := u.fieldComp(st, x.Name)
			stt := st.Underlying().(*types.Struct)
			for i := 0; i < stt.NumFields(); i++ {
				if stt.Field(i).Name() == x.Name {
					return Val{S: "Ptr", E: mkptr(pref(v.E), pidx(v.E), num(int64(u.fldCode(comp)))), T: types.NewPointer(stt.Field(i).Type())}
				}
			}
		}
	}
	c.errorf("cannot take address of %s", e)
	return Val{S: "Ptr", E: nilPtr}
}

func (c *SpecCtx) evalCall(x SCall) Val {
	vc := c.f.vc
	args := func() []Val {
		var vs []Val
		for _, a := range x.Args {
			vs = append(vs, c.eval(a))
		}
		return vs
	}
	terms := func(vs []Val) []string {
		var ts []string
		for _, v := range vs {
			ts = append(ts, v.E)
		}
		return ts
	}
	switch x.Fn {
	case "len":
		v := c.eval(x.Args[0])
		switch v.S {
		case "Str":
			return intV(app("slen", v.E))
		case "Slice":
			return intV(sln(v.E))
		case "Int":
			if mt, ok := v.T.Underlying().(*types.Map); ok {
				dom, _ := c.f.mapCur(mt, c.heap)
				return intV(app(c.f.mapCard(mt), app("select", dom, v.E)))
			}
		}
		c.errorf("len of %s", v.S)
		return intV("0")
	case "cap":
		return intV(scp(c.eval(x.Args[0]).E))
	case "slen":
		return intV(app("slen", c.eval(x.Args[0]).E))
	case "sat", "runeat", "runew":
		a := args()
		return intV(app(x.Fn, terms(a)...))
	case "scat", "ssub", "schr", "itoa", "sofrune", "slower":
		a := args()
		return strV(app(x.Fn, terms(a)...))
	case "atoi":
		return intV(app("atoi", c.eval(x.Args[0]).E))
	case "atoiok", "sle", "seqx", "sfold":
		a := args()
		return boolV(app(x.Fn, terms(a)...))
	case "godiv", "gomod":
		a := args()
		if t := terms(a); len(t) == 2 {
			// same encoding as the executor's (interpreted for literal divisors)
			if x.Fn == "godiv" {
				return intV(goDiv(t[0], t[1]))
			}
			return intV(goMod(t[0], t[1]))
		}
		return intV(app(x.Fn, terms(a)...))
	case "fresh":
		v := c.eval(x.Args[0])
		switch v.S {
		case "Ptr":
			return boolV(and(app(">=", pref(v.E), c.old.now), app("<", pref(v.E), c.heap.now)))
		case "Slice":
			return boolV(or(eq(sref(v.E), "0"), and(app(">=", sref(v.E), c.old.now), app("<", sref(v.E), c.heap.now))))
		case "Int":
			return boolV(and(app(">=", v.E, c.old.now), app("<", v.E, c.heap.now)))
		}
	case "allocated":
		v := c.eval(x.Args[0])
		r := v.E
		if v.S == "Ptr" {
			r = pref(v.E)
		} else if v.S == "Slice" {
			// a well-formed slice value: nil, or a view of an array allocated earlier
			r = sref(v.E)
			return boolV(and(app("<=", "0", r), app("<", r, c.heap.now), app("<=", "0", slo(v.E)), app("<=", "0", sln(v.E)), app("<=", sln(v.E), scp(v.E)),
				implies(eq(r, "0"), and(eq(sln(v.E), "0"), eq(scp(v.E), "0")))))
		}
		return boolV(and(app("<", "0", r), app("<", r, c.heap.now)))
	case "has": // has(m, k)
		a := args()
		if mt, ok := a[0].T.Underlying().(*types.Map); ok {
			dom, _ := c.f.mapCur(mt, c.heap)
			return boolV(and(not(eq(a[0].E, "0")), app("select", app("select", dom, a[0].E), a[1].E)))
		}
		c.errorf("has() on non-map")
		return boolV("true")
	case "domain": // domain(m): (Array K Bool)
		a := args()
		if mt, ok := a[0].T.Underlying().(*types.Map); ok {
			dom, _ := c.f.mapCur(mt, c.heap)
			ks, _ := c.f.mapSorts(mt)
			return Val{S: fmt.Sprintf("(Array %s Bool)", ks), E: app("select", dom, a[0].E)}
		}
	case "values": // values(m): (Array K V)
		a := args()
		if mt, ok := a[0].T.Underlying().(*types.Map); ok {
			_, val := c.f.mapCur(mt, c.heap)
			ks, vs := c.f.mapSorts(mt)
			return Val{S: fmt.Sprintf("(Array %s %s)", ks, vs), E: app("select", val, a[0].E)}
		}
	case "row": // row(s): the backing array of a scalar slice as (Array Int T)
		v := c.eval(x.Args[0])
		et := elemType(v.T)
		if v.S == "Slice" && et != nil && !isStruct(et) {
			es := c.f.en.u.sortOf(et)
			return Val{S: fmt.Sprintf("(Array Int %s)", es), E: app("select", vc.cur(c.heap, c.f.en.u.cellComp(et), es), sref(v.E))}
		}
		c.errorf("row() needs a scalar slice")
		return intV("0")
	case "sofbytes":
		a := args()
		return strV(app("sofbytes", terms(a)...))
	case "wfbox": // the interface value holds no typed-nil pointer (closed world of boxed pointer types)
		v := c.eval(x.Args[0])
		u := c.f.en.u
		var cs []string
		bk := append([]string{}, u.boxedOrd...)
		sort.Strings(bk)
		for _, k := range bk {
			t := u.boxed[k]
			if _, isPtr := t.Underlying().(*types.Pointer); isPtr && c.f.en.u.isRepoType(derefNamed(t)) {
				cs = append(cs, implies(app("(_ is "+u.boxName(t)+")", v.E), not(eq(pref(app(u.unboxName(t), v.E)), "0"))))
			}
		}
		return boolV(and(append(cs, not(eq(v.E, "inil")))...))
	case "typeis": // dynamic type test by type name string
	case "min":
		a := args()
		return intV(ite(app("<", a[0].E, a[1].E), a[0].E, a[1].E))
	case "max":
		a := args()
		return intV(ite(app(">", a[0].E, a[1].E), a[0].E, a[1].E))
	case "ite":
		a := args()
		x, y := c.unifyNil(a[1], a[2])
		return Val{S: x.S, E: ite(a[0].E, x.E, y.E), T: x.T}
	case "store":
		a := args()
		return Val{S: a[0].S, E: app("store", terms(a)...)}
	case "select":
		a := args()
		return Val{S: arrayElemSort(a[0].S), E: app("select", terms(a)...)}
	}
	// struct constructor: T{...} written as mk(T, a, b)
	if x.Fn == "mk" {
		id, ok := x.Args[0].(SIdent)
		tn := ""
		if ok {
			tn = id.Name
		} else if fd, ok := x.Args[0].(SField); ok {
			tn = fd.X.String() + "." + fd.Name
		}
		t, _ := c.resolveType(tn)
		si := c.f.en.u.structInfo(t)
		var ts []string
		for _, a := range x.Args[1:] {
			ts = append(ts, c.eval(a).E)
		}
		if len(ts) == 0 {
			return c.f.en.mkVal(t, c.f.en.u.mkName(si))
		}
		return c.f.en.mkVal(t, app(c.f.en.u.mkName(si), ts...))
	}
	if x.Fn == "addr" { // addr(x): the address of the local variable x (a variable whose address is taken)
		if id, ok := x.Args[0].(SIdent); ok && c.f != nil {
			var keys []ssa.Value
			for v := range c.f.env {
				keys = append(keys, v)
			}
			sort.Slice(keys, func(i, j int) bool { return keys[i].Name() < keys[j].Name() })
			for _, v := range keys {
				if a, ok := v.(*ssa.Alloc); ok && a.Comment == id.Name {
					return c.f.env[v]
				}
			}
		}
		c.errorf("addr: no addressable local %s", x.Args[0])
		return Val{S: "Ptr", E: nilPtr}
	}
	if x.Fn == "init" && len(x.Args) == 1 { // init(name): the value the local was declared with (before any reassignment)
		if id, ok := x.Args[0].(SIdent); ok && c.f != nil {
			if vs := c.f.dbg[c.renamed(id.Name)]; len(vs) > 0 {
				v := vs[0]
				ins, isIns := v.(ssa.Instruction)
				cur := c.evalBlock()
				if !isIns || cur == nil || ins.Block() == cur || ins.Block().Dominates(cur) {
					if _, known := c.f.env[v]; known {
						return c.f.env[v]
					}
					if k, isConst := v.(*ssa.Const); isConst {
						return c.f.constVal(k)
					}
				}
			}
			c.errorf("unknown identifier %s (in %s)", id.Name, c.fnName())
			return intV("0")
		}
		c.errorf("init takes a local name")
		return intV("0")
	}
	if x.Fn == "defined" { // defined(name): the local name is in scope at the evaluation point
		if id, ok := x.Args[0].(SIdent); ok && c.f != nil {
			if _, bound := c.binds[id.Name]; bound {
				// a let, or a loop ghost variable: the latter is in scope where its loop has been entered
				if hb, isGhost := c.f.ghostHdr[id.Name]; isGhost {
					if cur := c.evalBlock(); cur != nil && cur != hb && !hb.Dominates(cur) {
						return boolV("false")
					}
				}
				return boolV("true")
			}
			if c.dbgDominating(id.Name) != nil {
				return boolV("true")
			}
			return boolV("false")
		}
		c.errorf("defined takes a local name")
		return boolV("false")
	}
	if x.Fn == "hasmethod" && len(x.Args) == 2 { // hasmethod(T, Name): the method set of T (not of *T) holds Name
		// decided by go/types: this is what makes a value of type T stored in an interface
		// satisfy e.g. json.Marshaler (a pointer-receiver method is not in the set)
		t, _ := c.resolveType(x.Args[0].String())
		name := x.Args[1].String()
		ms := types.NewMethodSet(t)
		for i := 0; i < ms.Len(); i++ {
			if ms.At(i).Obj().Name() == name {
				return boolV("true")
			}
		}
		return boolV("false")
	}
	if x.Fn == "box" { // box(T, v)
		tn := x.Args[0].String()
		t, _ := c.resolveType(tn)
		c.f.en.u.registerBoxed(t)
		return Val{S: "Iface", E: app(c.f.en.u.boxName(t), c.eval(x.Args[1]).E)}
	}
	if pd, ok := c.f.en.cs.Preds[x.Fn]; ok {
		if len(pd.Params) != len(x.Args) {
			c.errorf("pred %s expects %d args", x.Fn, len(pd.Params))
			return boolV("true")
		}
		if c.depth > 20 {
			c.errorf("pred expansion too deep (%s is recursive?)", x.Fn)
			return boolV("true")
		}
		binds := map[string]Val{}
		for i, p := range pd.Params {
			v := c.eval(x.Args[i])
			if v.T == nil || p.Sort != "Int" {
				if t, srt := c.resolveTypeQuiet(p.Sort, pd.Pkg); t != nil && v.S != "Nil" {
					v.T = t
				} else if t != nil && v.S == "Nil" {
					// a literal nil takes the parameter's type
					switch srt {
					case "Ptr":
						v = Val{S: "Ptr", E: nilPtr, T: t}
					case "Slice":
						v = Val{S: "Slice", E: nilSlice, T: t}
					case "Iface":
						v = Val{S: "Iface", E: "inil", T: t}
					}
				}
			}
			// name large closed argument terms: keeps queries small and keeps ite out of patterns
			if len(v.E) > 40 && !strings.Contains(v.E, "q!") && v.S != "Nil" && v.S != "Tuple" && !c.quiet {
				v.E = c.f.vc.define("arg "+p.Name, v.S, v.E)
			}
			binds[p.Name] = v
		}
		sub := c.with(binds)
		// the body is evaluated in the package of the predicate
		if pd.Pkg != "" {
			if sp, ok := c.f.en.pkgs[pd.Pkg]; ok {
				sub.pkg = sp.Pkg
			}
		}
		sub.fn = nil
		sub.params = nil
		sub.depth = c.depth + 1
		sub.result = nil
		// only predicate parameters (and outer quantifier variables) are visible
		res := sub.eval(pd.Body)
		if res.S != "Bool" && len(res.E) > 40 && !strings.Contains(res.E, "q!") && res.S != "Tuple" && !c.quiet {
			res.E = c.f.vc.define("val "+pd.Name, res.S, res.E)
		}
		return res
	}
	if sf, ok := c.f.en.cs.Specs[x.Fn]; ok {
		a := args()
		c.f.vc.declareSpec(c, sf)
		_, rs := c.resolveTypeIn(sf.Ret, sf.Pkg)
		rt, _ := c.resolveTypeIn(sf.Ret, sf.Pkg)
		if len(a) == 0 {
			return Val{S: rs, E: q("sf " + sf.Name), T: rt}
		}
		return Val{S: rs, E: app(q("sf "+sf.Name), terms(a)...), T: rt}
	}
	c.errorf("unknown function %s", x.Fn)
	return intV("0")
}

func (c *SpecCtx) resolveTypeQuiet(name, pkg string) (types.Type, string) {
	n := *c
	n.quiet = true
	return n.resolveTypeIn(name, pkg)
}

func (c *SpecCtx) resolveTypeIn(name, pkg string) (types.Type, string) {
	n := *c
	if pkg != "" {
		if sp, ok := c.f.en.pkgs[pkg]; ok {
			n.pkg = sp.Pkg
		}
	}
	return n.resolveType(name)
}

func (vc *VC) declareSpec(c *SpecCtx, sf *SpecFunc) {
	n := q("sf " + sf.Name)
	if vc.specDecl[n] {
		return
	}
	vc.specDecl[n] = true
	var ps []string
	for _, p := range sf.Params {
		_, s := c.resolveTypeIn(p, sf.Pkg)
		ps = append(ps, s)
	}
	_, rs := c.resolveTypeIn(sf.Ret, sf.Pkg)
	vc.specLines = append(vc.specLines, fmt.Sprintf("(declare-fun %s (%s) %s)", n, strings.Join(ps, " "), rs))
}

// ---- lvalues (modifies clauses) ----

type lvTarget struct {
	comp, sort, ref, idx string
}

// lvalueTargets evaluates a modifies entry into heap targets.
func (c *SpecCtx) lvalueTargets(e SExpr) ([]lvTarget, bool) {
	if !c.totalAs {
		// a target reached through a type view (x as *T) exists only when x holds a *T; otherwise
		// the entry designates nothing (the null row, which holds no object)
		n := *c
		n.totalAs = true
		var gs []string
		n.asGuards = &gs
		ts, ok := n.lvalueTargets(e)
		if ok && len(gs) > 0 {
			g := and(gs...)
			for i := range ts {
				if ts[i].ref != "" {
					ts[i].ref = ite(g, ts[i].ref, "0")
				}
			}
		}
		return ts, ok
	}
	u := c.f.en.u
	switch x := e.(type) {
	case SField:
		var v Val
		if ix, isIx := x.X.(SIndex); isIx {
			// field of a slice element: s[i].f
			v = c.addrOf(ix)
		} else {
			v = c.eval(x.X)
		}
		if st, ok := c.structOf(v.T); ok {
			if gs, ok := c.ghostField(st, x.Name); ok {
				_, s := c.resolveType(gs)
				return []lvTarget{{q("H " + typeKey(st) + "." + x.Name), s, pref(v.E), pidx(v.E)}}, true
			}
			stt := st.Underlying().(*types.Struct)
			for i := 0; i < stt.NumFields(); i++ {
				if stt.Field(i).Name() == x.Name {
					return []lvTarget{{u.fieldComp(st, x.Name), u.sortOf(stt.Field(i).Type()), pref(v.E), pidx(v.E)}}, true
				}
			}
		}
	case SCall:
		switch x.Fn {
		case "elems":
			v := c.eval(x.Args[0])
			et := elemType(v.T)
			if v.S == "Slice" && et != nil {
				if isStruct(et) {
					si := u.structInfo(et)
					var out []lvTarget
					for k := 0; !si.Opaque && k < si.St.NumFields(); k++ {
						out = append(out, lvTarget{u.fieldComp(et, si.St.Field(k).Name()), u.sortOf(si.St.Field(k).Type()), sref(v.E), ""})
					}
					return out, true
				}
				return []lvTarget{{u.cellComp(et), u.sortOf(et), sref(v.E), ""}}, true
			}
		case "fields": // fields(p): all fields of the struct cell p
			v := c.eval(x.Args[0])
			if st, ok := c.structOf(v.T); ok {
				si := u.structInfo(st)
				var out []lvTarget
				for k := 0; !si.Opaque && k < si.St.NumFields(); k++ {
					out = append(out, lvTarget{u.fieldComp(st, si.St.Field(k).Name()), u.sortOf(si.St.Field(k).Type()), pref(v.E), pidx(v.E)})
				}
				for _, g := range u.ghost[typeKey(st)] {
					_, s := c.resolveType(g.Sort)
					out = append(out, lvTarget{q("H " + typeKey(st) + "." + g.Name), s, pref(v.E), pidx(v.E)})
				}
				return out, true
			}
		case "allmaps": // allmaps(m): every map of m's type (component granularity)
			v := c.eval(x.Args[0])
			if mt, ok := v.T.Underlying().(*types.Map); ok {
				d, vv := c.f.mapComps(mt)
				c.f.mapCur(mt, c.heap)
				return []lvTarget{{d, "MapDom", "", ""}, {vv, "MapVal", "", ""}}, true
			}
		case "entries": // entries(m)
			v := c.eval(x.Args[0])
			if mt, ok := v.T.Underlying().(*types.Map); ok {
				d, vv := c.f.mapComps(mt)
				c.f.mapCur(mt, c.heap)
				return []lvTarget{{d, "MapDom", v.E, ""}, {vv, "MapVal", v.E, ""}}, true
			}
		case "all": // all(T.f): field f of every T
			if fd, ok := x.Args[0].(SField); ok {
				t, _ := c.resolveType(fd.X.String())
				if t != nil && isStruct(t) {
					stt := t.Underlying().(*types.Struct)
					for i := 0; i < stt.NumFields(); i++ {
						if stt.Field(i).Name() == fd.Name {
							return []lvTarget{{u.fieldComp(t, fd.Name), u.sortOf(stt.Field(i).Type()), "", ""}}, true
						}
					}
					if gs, ok := c.ghostField(t, fd.Name); ok {
						_, s := c.resolveType(gs)
						return []lvTarget{{q("H " + typeKey(t) + "." + fd.Name), s, "", ""}}, true
					}
				}
			}
		case "cells": // cells(T): all cells of scalar type T
			t, _ := c.resolveType(x.Args[0].String())
			if t != nil {
				return []lvTarget{{u.cellComp(t), u.sortOf(t), "", ""}}, true
			}
		}
	case SUnary:
		if x.Op == "*" {
			v := c.eval(x.X)
			if et := elemType(v.T); et != nil && !isStruct(et) {
				return []lvTarget{{u.cellComp(et), u.sortOf(et), pref(v.E), pidx(v.E)}}, true
			}
		}
	case SIdent:
		if g, ok := c.f.en.cs.GhostGlobals[x.Name]; ok {
			_, s := c.resolveType(g)
			return []lvTarget{{q("GG " + x.Name), s, "(- 1)", "0"}}, true
		}
		if c.pkg != nil {
			if obj, ok := c.pkg.Scope().Lookup(x.Name).(*types.Var); ok {
				comp := q("G " + obj.Pkg().Name() + "." + obj.Name())
				return []lvTarget{{comp, u.sortOf(obj.Type()), num(-int64(u.fldCode(comp)) - 1), "0"}}, true
			}
		}
	}
	return nil, false
}

func (c *SpecCtx) lvalueTarget(e SExpr) (comp, sort, ref, idx string, ok bool) {
	ts, ok := c.lvalueTargets(e)
	if !ok || len(ts) == 0 {
		return "", "", "", "", false
	}
	return ts[0].comp, ts[0].sort, ts[0].ref, ts[0].idx, true
}

// havocLvalue applies a callee's modifies entry to the heap (and frame-checks the caller).
func (c *SpecCtx) havocLvalue(e SExpr, h *Heap, reach string, pos token.Pos, check bool) {
	ts, ok := c.lvalueTargets(e)
	if !ok {
		c.errorf("cannot evaluate modifies entry %s", e)
		c.f.vc.havocAll(h)
		return
	}
	vc := c.f.vc
	for _, t := range ts {
		if check {
			if t.ref == "" {
				c.f.frameCheckComp(t.comp, reach, pos)
			} else {
				c.f.frameCheckAt(t.comp, t.ref, t.idx, reach, pos)
			}
		}
		switch {
		case t.ref == "":
			vc.havocComp(h, t.comp, t.sort)
		case t.sort == "MapDom" || t.sort == "MapVal":
			// one-level map component: havoc the map's entry
			srt := vc.mapSorts[t.comp]
			inner := strings.TrimSuffix(strings.TrimPrefix(srt, "(Array Int "), ")")
			n := vc.fresh("mapv", inner)
			vc.setComp(h, t.comp, t.sort, app("store", vc.cur(h, t.comp, t.sort), t.ref, n))
		case t.idx == "":
			vc.havocRow(h, t.comp, t.sort, t.ref)
		default:
			vc.havocCell(h, t.comp, t.sort, t.ref, t.idx)
		}
	}
}

func (f *Frame) frameCheckComp(comp, reach string, pos token.Pos) {
	if !f.frameOn() {
		return
	}
	entries, all := f.frameEntries()
	if all {
		return
	}
	for _, e := range entries {
		if e.comp == comp && e.ref == "" {
			return
		}
	}
	f.check("modifies", not(reach), pos, "callee modifies all of "+comp+", not covered by the modifies clause")
}

// lvalueComps resolves the components of a modifies entry statically (no values needed).
func (en *Engine) lvalueComps(e SExpr, fn *ssa.Function) ([]lvTarget, bool) {
	vc := newVC(en.u, en.cs, "tmp", en.fset)
	fr := &Frame{en: en, vc: vc, fn: fn, env: map[ssa.Value]Val{}, lets: map[string]Val{}, entry: &Heap{ver: map[string]string{}, now: "now0"}}
	for _, p := range fn.Params {
		fr.params = append(fr.params, Val{S: en.u.sortOf(p.Type()), E: "x", T: p.Type()})
	}
	ctx := &SpecCtx{f: fr, fn: fn, params: fr.params, heap: fr.entry, old: fr.entry, binds: map[string]Val{}, pkg: pkgOf(fn), quiet: true}
	if ct := en.cs.Funcs[funcKey(fn)]; ct != nil {
		for _, l := range ct.Lets {
			ctx.binds[l.Name] = ctx.eval(l.E)
		}
	}
	ts, ok := ctx.lvalueTargets(e)
	if !ok || len(ts) == 0 {
		return nil, false
	}
	for _, t := range ts {
		if t.sort == "MapDom" || t.sort == "MapVal" {
			// remember the one-level sort for the real VC
			en.mapSortMemo[t.comp] = vc.mapSorts[t.comp]
		}
	}
	return ts, true
}

// addShift computes lo + i, cancelling the index shift (i == j - lo) introduced for quantifiers.
func addShift(lo, i string) string {
	if strings.HasPrefix(i, "(- q!") && strings.HasSuffix(i, " "+lo+")") {
		return strings.TrimSuffix(strings.TrimPrefix(i, "(- "), " "+lo+")")
	}
	for _, op := range []string{"+", "-"} {
		// (op (- q!k lo) c)  ==>  (op q!k c)
		pre := "(" + op + " (- q!"
		if strings.HasPrefix(i, pre) {
			rest := i[len(pre)-len("q!"):]
			if j := strings.Index(rest, " "+lo+") "); j > 0 && !strings.Contains(rest[:j], " ") {
				return "(" + op + " " + rest[:j] + " " + rest[j+len(" "+lo+") "):]
			}
		}
	}
	if lo == "0" {
		return i
	}
	return app("+", lo, i)
}
