package main

import (
	"fmt"
	"os"
	"path/filepath"
	"strings"
)

// docspec parses the operator and coercion tables of docs/language/LanguageDetails.md
// ("Type Coersion") into spec predicates. The documented tables are the oracle of C11/C12;
// nothing about which combinations exist or which side is coerced is written by hand.

var opConst = map[string]string{"+": "ast.PLUS", "-": "ast.MINUS", "*": "ast.MULT", "/": "ast.DIV", "%": "ast.MOD",
	"==": "ast.DEQUAL", "!=": "ast.NEQUAL", "<": "ast.LESS", ">": "ast.GREATER", "<=": "ast.LESSEQ", ">=": "ast.GREATEREQ",
	"and": "ast.AND", "or": "ast.OR", "not": "ast.NOT", "head": "ast.HEAD", "tail": "ast.TAIL"}

var ptConst = map[string]string{"string": "bytecode.PTSTRING", "number": "bytecode.PTNUMBER", "bool": "bytecode.PTBOOLEAN"}

// coercion cells, keyed by the exact documented text.
var coerceCell = map[string]string{
	"`strconv.Itoa(number)`":                               "itoa(nval(v))",
	"`if bool then return \"true\" else return \"false\"`": "(bval(v) ? \"true\" : \"false\")",
	"`strconv.Atoi(string) (on error returns 0)`":          "(atoiok(sval(v)) ? atoi(sval(v)) : 0)",
	"`if bool then return 1 else return 0`":                "(bval(v) ? 1 : 0)",
	"`len(string) != 0`":                                   "(len(sval(v)) != 0)",
	"`number != 0`":                                        "(nval(v) != 0)",
}

type opRow struct {
	lt, op, rt, res    string
	lCoerced, rCoerced bool
}

func cells(line string) []string {
	line = strings.TrimSpace(line)
	line = strings.Trim(line, "|")
	var out []string
	for _, c := range strings.Split(line, "|") {
		out = append(out, strings.TrimSpace(c))
	}
	return out
}

func stripMark(s string) (string, bool) {
	t := strings.Trim(s, "*_ ")
	return t, t != s
}

func docSpecText(repo string) (string, []string, error) {
	path := filepath.Join(repo, "docs/language/LanguageDetails.md")
	data, err := os.ReadFile(path)
	if err != nil {
		return "", nil, err
	}
	lines := strings.Split(string(data), "\n")
	var rows []opRow
	matrix := map[string]map[string]string{} // to -> from -> expr
	var stmtRows [][]string
	mode := ""
	var matHead []string
	for _, l := range lines {
		t := strings.TrimSpace(l)
		if !strings.HasPrefix(t, "|") {
			if t != "" {
				mode = ""
			}
			continue
		}
		c := cells(t)
		if strings.HasPrefix(c[0], "---") || (len(c) > 1 && strings.HasPrefix(c[1], "---")) {
			continue
		}
		switch {
		case len(c) == 4 && c[0] == "LH Operand":
			mode = "ops"
			continue
		case len(c) == 4 && c[0] == "" && c[1] == "string" && c[2] == "number":
			mode = "matrix"
			matHead = c
			continue
		case len(c) == 3 && c[0] == "Statement":
			mode = "stmt"
			continue
		}
		switch mode {
		case "ops":
			if len(c) != 4 {
				return "", nil, fmt.Errorf("operator table row not understood: %q", t)
			}
			lt, lc := stripMark(c[0])
			rt, rc := stripMark(c[2])
			if _, ok := opConst[c[1]]; !ok {
				return "", nil, fmt.Errorf("operator %q of the documented table is unknown", c[1])
			}
			rows = append(rows, opRow{lt, c[1], rt, c[3], lc, rc})
		case "matrix":
			to := c[0]
			matrix[to] = map[string]string{}
			for k := 1; k < len(c) && k < len(matHead); k++ {
				if c[k] == "" {
					continue
				}
				e, ok := coerceCell[c[k]]
				if !ok {
					return "", nil, fmt.Errorf("coercion cell %q (to %s from %s) is not understood", c[k], to, matHead[k])
				}
				matrix[to][matHead[k]] = e
			}
		case "stmt":
			stmtRows = append(stmtRows, c)
		}
	}
	if len(rows) < 20 || len(matrix) != 3 || len(stmtRows) != 3 {
		return "", nil, fmt.Errorf("documented tables incomplete: %d operator rows, %d matrix rows, %d statement rows", len(rows), len(matrix), len(stmtRows))
	}
	var b strings.Builder
	var samples []string
	w := func(s string) { b.WriteString("//@ " + s + "\n") }
	// coercions
	conv := func(to string, self string) string {
		m := matrix[to]
		var parts []string
		order := []string{"string", "number", "bool"}
		e := ""
		for i := len(order) - 1; i >= 0; i-- {
			from := order[i]
			var x string
			if from == to {
				x = self
			} else {
				x = m[from]
			}
			if e == "" {
				e = x
			} else {
				test := map[string]string{"string": "isStr(v)", "number": "isNum(v)", "bool": "isBool(v)"}[from]
				e = fmt.Sprintf("(%s ? %s : %s)", test, x, e)
			}
		}
		_ = parts
		return e
	}
	w("pred docToStr(v engine.ProcessValue) := " + conv("string", "sval(v)"))
	w("pred docToNum(v engine.ProcessValue) := " + conv("number", "nval(v)"))
	w("pred docToBool(v engine.ProcessValue) := " + conv("bool", "bval(v)"))
	asT := map[string]string{"string": "sval", "number": "nval", "bool": "bval"}
	toT := map[string]string{"string": "docToStr", "number": "docToNum", "bool": "docToBool"}
	opFn := map[string]string{"string": "strOp", "number": "numOp", "bool": "boolOp"}
	// binary rows
	admitted, rtype, value := "false", "bytecode.PTERROR", "l"
	uadm, urtype, uvalue := "false", "bytecode.PTERROR", "x"
	for i := len(rows) - 1; i >= 0; i-- {
		r := rows[i]
		if r.lt == "" { // unary
			cond := fmt.Sprintf("(op == %s && t == %s)", opConst[r.op], ptConst[r.rt])
			uadm = fmt.Sprintf("(%s || %s)", cond, uadm)
			urtype = fmt.Sprintf("(%s ? %s : %s)", cond, ptConst[r.res], urtype)
			var val string
			switch r.op {
			case "not":
				val = "mkB(!bval(x))"
			case "head":
				val = "mkS(headOf(sval(x)))"
			case "tail":
				val = "mkS(tailOf(sval(x)))"
			}
			vcond := fmt.Sprintf("(op == %s && tagOf(x) == %s)", opConst[r.op], ptConst[r.rt])
			uvalue = fmt.Sprintf("(%s ? %s : %s)", vcond, val, uvalue)
			samples = append(samples, fmt.Sprintf("%s %s -> %s", r.op, r.rt, r.res))
			continue
		}
		var cond, vcond, val string
		switch {
		case r.lCoerced && !r.rCoerced:
			// "_number_ op number": the left operand is coerced to the right operand's type.
			// Reading (DESIGN C11): applies to a left operand whose own type has no row for op.
			cond = fmt.Sprintf("(lt == bytecode.PTSTRING && rt == %s && op == %s)", ptConst[r.rt], opConst[r.op])
			vcond = fmt.Sprintf("(isStr(l) && tagOf(r) == %s && op == %s)", ptConst[r.rt], opConst[r.op])
			val = fmt.Sprintf("%s(op, %s(l), %s(r))", opFn[r.rt], toT[r.rt], asT[r.rt])
		default:
			cond = fmt.Sprintf("(lt == %s && op == %s)", ptConst[r.lt], opConst[r.op])
			vcond = fmt.Sprintf("(tagOf(l) == %s && op == %s)", ptConst[r.lt], opConst[r.op])
			val = fmt.Sprintf("%s(op, %s(l), %s(r))", opFn[r.lt], asT[r.lt], toT[r.lt])
		}
		admitted = fmt.Sprintf("(%s || %s)", cond, admitted)
		rtype = fmt.Sprintf("(%s ? %s : %s)", cond, ptConst[r.res], rtype)
		value = fmt.Sprintf("(%s ? %s : %s)", vcond, val, value)
		samples = append(samples, fmt.Sprintf("%s %s %s -> %s", r.lt, r.op, r.rt, r.res))
	}
	w("pred docAdmitted(lt Int, op Int, rt Int) := " + admitted)
	w("pred docResultType(lt Int, op Int, rt Int) := " + rtype)
	w("pred docBinary(l engine.ProcessValue, op Int, r engine.ProcessValue) := " + value)
	w("pred docUnaryAdmitted(op Int, t Int) := " + uadm)
	w("pred docUnaryResultType(op Int, t Int) := " + urtype)
	w("pred docUnary(op Int, x engine.ProcessValue) := " + uvalue)
	// statement requirements
	for _, c := range stmtRows {
		switch c[0] + "/" + c[1] {
		case "if/condition":
			if c[2] != "bool" {
				return "", nil, fmt.Errorf("statement table: if condition %q", c[2])
			}
			w("pred docIfCond(t Int) := t == bytecode.PTBOOLEAN")
		case "return/function":
			if c[2] != "string or number" {
				return "", nil, fmt.Errorf("statement table: return function %q", c[2])
			}
			w("pred docReturnTransform(t Int) := t == bytecode.PTSTRING || t == bytecode.PTNUMBER")
		case "return/pattern predicate":
			if c[2] != "bool" {
				return "", nil, fmt.Errorf("statement table: return predicate %q", c[2])
			}
			w("pred docReturnPredicate(t Int) := t == bytecode.PTBOOLEAN")
		default:
			return "", nil, fmt.Errorf("statement table row not understood: %v", c)
		}
	}
	return b.String(), samples, nil
}
