package main

import (
	"encoding/json"
	"os"
	"regexp"
	"strings"
)

var modelDef = regexp.MustCompile(`(?s)\(define-fun ([^ ]+) \(\) ([^\n]+?)\n\s+(.*?)\)\n`)

// parseModel extracts the nullary definitions of a solver model (best effort).
func parseModel(out string) map[string]string {
	m := map[string]string{}
	for _, g := range modelDef.FindAllStringSubmatch(out, -1) {
		m[g[1]] = strings.TrimSpace(g[3])
	}
	return m
}

// replayObligation writes the replay file of a failed obligation and, where a replay template
// exists for the function, runs the model against the real code. It returns true when the real
// code was shown to misbehave.
func replayObligation(en *Engine, opts checkOpts, r *obResult, path string) bool {
	model := parseModel(r.R.Output)
	params := map[string]string{}
	for k, v := range model {
		if strings.HasPrefix(k, "p_") {
			params[k] = v
		}
	}
	rec := map[string]any{
		"property":      opts.prop,
		"obligation":    r.O.Name,
		"kind":          r.O.Kind,
		"function":      r.O.Func,
		"clause":        r.O.Src,
		"where":         r.O.Where,
		"solver_status": r.R.Status,
		"solver_all":    r.R.All,
		"smt_file":      r.File,
		"model_params":  params,
		"solver_output": truncate(r.R.Output, 20000),
		"repo":          opts.repo,
	}
	confirmed := false
	if attempted, ok, extra := replayScalar(en, opts, r); attempted {
		for k, v := range extra {
			rec[k] = v
		}
		if _, has := rec["replayed_on_real_code"]; !has {
			rec["replayed_on_real_code"] = false
		}
		confirmed = ok
		if !ok {
			rec["note"] = "the solver's model was run against the real code but did not confirm the violation (see replay_log / confirm_status); the obligation discharged on the pinned tree and fails now"
		}
	} else if tmpl := replayTemplates[r.O.Func]; tmpl != nil {
		ok, log := tmpl(en, opts, r, model)
		rec["replay_log"] = log
		rec["replayed_on_real_code"] = true
		confirmed = ok
	} else {
		rec["replayed_on_real_code"] = false
		rec["note"] = "no replay template for this function: the obligation discharged on the pinned tree and fails now; the solver output is attached"
	}
	rec["failing_input_found"] = confirmed
	data, _ := json.MarshalIndent(rec, "", " ")
	os.WriteFile(path, data, 0o644)
	return confirmed
}

func truncate(s string, n int) string {
	if len(s) > n {
		return s[:n] + "...[truncated]"
	}
	return s
}

type replayFn func(en *Engine, opts checkOpts, r *obResult, model map[string]string) (bool, string)

var replayTemplates = map[string]replayFn{}

// residualOf lists what stays unproved for a property even when every obligation discharges.
func residualOf(prop string) []string {
	return residuals[prop]
}

var residuals = map[string][]string{}
