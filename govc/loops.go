package main

import (
	"fmt"
	"go/token"
	"go/types"
	"sort"
	"strings"

	"golang.org/x/tools/go/ssa"
)

// loopWrites computes the heap components (and rows when identifiable) written in a loop.
type loopWrite struct {
	comp string
	sort string
	refs map[string]bool // row refs (SMT terms of loop-invariant values); nil => whole component
}

func (f *Frame) enterLoop(li *loopInfo, b *ssa.BasicBlock, preds []*ssa.BasicBlock, conds []string, heaps []*Heap, reach string, heap *Heap) {
	vc := f.vc
	// entry obligations are evaluated against each entering edge
	invs := f.loopInvs(li.n)
	if f.ct == nil || (len(invs) == 0 && f.top) {
		vc.notes = append(vc.notes, fmt.Sprintf("%s: loop %d has no invariant", f.fn.Name(), li.n))
	}
	// 1. obligations inv.entry
	for pi, p := range preds {
		env := map[ssa.Value]Val{}
		for _, ins := range b.Instrs {
			phi, ok := ins.(*ssa.Phi)
			if !ok {
				break
			}
			for k, bp := range b.Preds {
				if bp == p {
					env[phi] = f.val(phi.Edges[k])
				}
			}
		}
		ctx := f.specCtx(heaps[pi], env)
		ctx.locals = true
		ctx.block = b
		if gs := f.loopGhosts(li.n); len(gs) > 0 {
			// ghost variables start at their initial value (the name inside Init is an arbitrary value)
			ctx = ctx.with(nil)
			for _, g := range gs {
				gt, srt := ctx.resolveType(g.Sort)
				ctx.binds[g.Name] = Val{S: srt, E: vc.fresh(f.prefix+"ghost0 "+g.Name, srt), T: gt}
				iv := ctx.eval(g.Init)
				ctx.binds[g.Name] = Val{S: srt, E: vc.define(f.prefix+"ghostinit "+g.Name, srt, iv.E), T: gt}
			}
		}
		for k, inv := range invs {
			name := f.callPath + fmt.Sprintf("inv.entry.%d.%s", li.n, clauseName(inv, k))
			if len(preds) > 1 {
				name += fmt.Sprintf("@pred%d", pi+1)
			}
			g, why := vc.checkedGoal(ctx, inv.E)
			vc.oblige(name, "inv.entry", implies(conds[pi], g), clauseProps(inv, f.ctProps()), inv.Where, "loop invariant holds on entry: "+inv.Src+why)
		}
	}
	// 2. havoc
	f.havocLoop(li, heap, reach)
	for _, ins := range b.Instrs {
		phi, ok := ins.(*ssa.Phi)
		if !ok {
			break
		}
		name := phi.Comment
		if name == "" {
			name = phi.Name()
		}
		f.env[phi] = f.freshVal(f.prefix+name, phi.Type(), heap)
	}
	// range loops: the hidden index only grows from -1 (go/ssa lowering)
	for _, ins := range b.Instrs {
		phi, ok := ins.(*ssa.Phi)
		if !ok {
			break
		}
		if phi.Comment == "rangeindex" {
			vc.assume(implies(reach, app(">=", f.env[phi].E, "(- 1)")))
		}
	}
	// ghost variables: an arbitrary value constrained by the invariants, visible from here on
	for _, g := range f.loopGhosts(li.n) {
		gt, srt := f.specCtx(heap, nil).resolveType(g.Sort)
		f.lets[g.Name] = Val{S: srt, E: vc.fresh(f.prefix+"ghost "+g.Name, srt), T: gt}
		if f.ghostHdr == nil {
			f.ghostHdr = map[string]*ssa.BasicBlock{}
		}
		f.ghostHdr[g.Name] = b
	}
	// 3. assume invariants
	li.hdrHeap = heap.clone()
	ctx := f.specCtx(heap, nil)
	ctx.locals = true
	ctx.block = b
	for _, inv := range invs {
		// an invariant that cannot be evaluated here is not assumed (its entry obligation fails)
		if g, why := vc.checkedGoal(ctx, inv.E); why == "" {
			vc.assume(implies(reach, g))
		}
	}
	if f.ct != nil {
		for _, pr := range f.en.activeClauses(f.ct.LoopPresume[li.n], f.ct) {
			vc.assume(implies(reach, ctx.evalBool(pr.E)))
			vc.assumed = append(vc.assumed, fmt.Sprintf("presumed loop fact in %s loop %d (not checked): %s", f.fn.Name(), li.n, pr.Src))
		}
	}
	if f.ct != nil {
		if dec, ok := f.ct.LoopDec[li.n]; ok {
			li.decAt = vc.define(f.prefix+fmt.Sprintf("measure.%d", li.n), "Int", ctx.eval(dec.E).E)
		}
	}
}

func clauseName(c Clause, k int) string {
	if c.Label != "" {
		return c.Label
	}
	return fmt.Sprint(k + 1)
}

func clauseProps(c Clause, def []string) []string {
	if len(c.Props) > 0 {
		return c.Props
	}
	return def
}

func (f *Frame) loopGhosts(n int) []GhostVar {
	if f.ct == nil || !f.top {
		return nil
	}
	return f.ct.LoopGhost[n]
}

func (f *Frame) loopInvs(n int) []Clause {
	if f.ct == nil {
		return nil
	}
	return f.en.activeClauses(f.ct.LoopInv[n], f.ct)
}

func (f *Frame) backEdge(li *loopInfo, latch *ssa.BasicBlock) {
	vc := f.vc
	cond := f.edgeCond(latch, li.header)
	env := map[ssa.Value]Val{}
	for _, ins := range li.header.Instrs {
		phi, ok := ins.(*ssa.Phi)
		if !ok {
			break
		}
		for k, bp := range li.header.Preds {
			if bp == latch {
				env[phi] = f.val(phi.Edges[k])
			}
		}
	}
	ctx := f.specCtx(f.end[latch].heap, env)
	ctx.locals = true
	ctx.block = li.header
	if gs := f.loopGhosts(li.n); len(gs) > 0 {
		// the back edge updates the ghost variables (simultaneously, from the values at the header)
		nb := map[string]Val{}
		for _, g := range gs {
			nv := ctx.eval(g.Next)
			gt, _ := ctx.resolveType(g.Sort)
			if gt == nil {
				gt = nv.T
			}
			nb[g.Name] = Val{S: nv.S, E: vc.define(f.prefix+"ghostnext "+g.Name, nv.S, nv.E), T: gt}
		}
		ctx = ctx.with(nb)
	}
	suffix := ""
	if len(li.latches) > 1 {
		for k, l := range li.latches {
			if l == latch {
				suffix = fmt.Sprintf("@latch%d", k+1)
			}
		}
	}
	paths := f.splitConds(latch)
	for k, inv := range f.loopInvs(li.n) {
		name := f.callPath + fmt.Sprintf("inv.step.%d.%s%s", li.n, clauseName(inv, k), suffix)
		goal, why := vc.checkedGoal(ctx, inv.E)
		if len(paths) <= 1 || why != "" {
			vc.oblige(name, "inv.step", implies(cond, goal), clauseProps(inv, f.ctProps()), inv.Where, "loop invariant preserved: "+inv.Src+why)
			continue
		}
		for pi, pc := range paths {
			vc.oblige(fmt.Sprintf("%s/path#%d", name, pi+1), "inv.step", implies(and(pc, cond), goal), clauseProps(inv, f.ctProps()), inv.Where+" / via "+f.splitWhere[pi], "loop invariant preserved: "+inv.Src)
		}
	}
	if f.ct != nil {
		if dec, ok := f.ct.LoopDec[li.n]; ok {
			m := ctx.eval(dec.E).E
			name := f.callPath + fmt.Sprintf("dec.%d%s", li.n, suffix)
			vc.oblige(name, "dec", implies(cond, and(app("<=", "0", li.decAt), app("<", m, li.decAt))), clauseProps(dec, f.ctProps()), dec.Where, "loop variant decreases: "+dec.Src)
		}
	}
}

// havocLoop forgets what the loop body may change.
func (f *Frame) havocLoop(li *loopInfo, h *Heap, reach string) {
	vc := f.vc
	writes := map[string]*loopWrite{}
	all := false
	add := func(comp, sort, ref string) {
		w := writes[comp]
		if w == nil {
			w = &loopWrite{comp: comp, sort: sort, refs: map[string]bool{}}
			writes[comp] = w
		}
		if ref == "" {
			w.refs = nil
		} else if w.refs != nil {
			w.refs[ref] = true
		}
	}
	invariantVal := func(v ssa.Value) (Val, bool) {
		// value defined outside the loop and already evaluated
		if ins, ok := v.(ssa.Instruction); ok {
			if li.body[ins.Block()] {
				return Val{}, false
			}
		}
		x, ok := f.env[v]
		if !ok {
			if _, isC := v.(*ssa.Const); isC {
				return f.val(v), true
			}
			if _, isG := v.(*ssa.Global); isG {
				return f.val(v), true
			}
			return Val{}, false
		}
		return x, true
	}
	var addStore func(addr ssa.Value)
	addStore = func(addr ssa.Value) {
		u := f.en.u
		switch a := addr.(type) {
		case *ssa.FieldAddr:
			st := a.X.Type().Underlying().(*types.Pointer).Elem()
			sinfo := u.structInfo(st)
			stt := st.Underlying().(*types.Struct)
			fl := stt.Field(a.Field)
			_ = sinfo
			// nested path? find the root
			if inner, ok := a.X.(*ssa.FieldAddr); ok {
				addStore(inner)
				return
			}
			if x, ok := invariantVal(a.X); ok {
				if x.Addr != nil && x.Addr.Comp != u.cellComp(x.Addr.CompT) {
					add(x.Addr.Comp, u.sortOf(x.Addr.CompT), pref(x.Addr.Base))
					return
				}
				add(u.fieldComp(st, fl.Name()), u.sortOf(fl.Type()), pref(x.E))
			} else {
				add(u.fieldComp(st, fl.Name()), u.sortOf(fl.Type()), "")
			}
		case *ssa.IndexAddr:
			var et types.Type
			var refOf func(Val) string
			switch xt := a.X.Type().Underlying().(type) {
			case *types.Slice:
				et = xt.Elem()
				refOf = func(v Val) string { return sref(v.E) }
			case *types.Pointer:
				et = xt.Elem().Underlying().(*types.Array).Elem()
				refOf = func(v Val) string { return pref(v.E) }
			}
			ref := ""
			if x, ok := invariantVal(a.X); ok {
				ref = refOf(x)
			}
			if isStruct(et) {
				si := u.structInfo(et)
				for k := 0; !si.Opaque && k < si.St.NumFields(); k++ {
					add(u.fieldComp(et, si.St.Field(k).Name()), u.sortOf(si.St.Field(k).Type()), ref)
				}
			} else {
				add(u.cellComp(et), u.sortOf(et), ref)
			}
		case *ssa.Alloc:
			et := a.Type().(*types.Pointer).Elem()
			ref := ""
			if x, ok := invariantVal(a); ok {
				ref = pref(x.E)
			}
			if isStruct(et) {
				si := u.structInfo(et)
				for k := 0; !si.Opaque && k < si.St.NumFields(); k++ {
					add(u.fieldComp(et, si.St.Field(k).Name()), u.sortOf(si.St.Field(k).Type()), ref)
				}
			} else {
				add(u.cellComp(et), u.sortOf(et), ref)
			}
		case *ssa.Global:
			x := f.val(a)
			add(x.Addr.Comp, u.sortOf(x.Addr.CompT), pref(x.Addr.Base))
		default:
			// pointer of unknown provenance
			pt, ok := addr.Type().Underlying().(*types.Pointer)
			if !ok {
				all = true
				return
			}
			et := pt.Elem()
			ref := ""
			if x, ok := invariantVal(addr); ok {
				ref = pref(x.E)
			}
			if isStruct(et) {
				si := u.structInfo(et)
				for k := 0; !si.Opaque && k < si.St.NumFields(); k++ {
					add(u.fieldComp(et, si.St.Field(k).Name()), u.sortOf(si.St.Field(k).Type()), ref)
				}
			} else {
				add(u.cellComp(et), u.sortOf(et), ref)
				for _, comp := range f.fieldCandidates(et) {
					add(comp, u.sortOf(et), ref)
				}
			}
		}
	}
	var scanCallee func(fn *ssa.Function, depth int, seen map[*ssa.Function]bool)
	scanInstr := func(ins ssa.Instruction, depth int, seen map[*ssa.Function]bool, inLoopFrame bool) {
		switch i := ins.(type) {
		case *ssa.Store:
			if inLoopFrame {
				addStore(i.Addr)
			} else {
				f.addStoreByType(i.Addr, add)
			}
		case *ssa.MapUpdate:
			mt := i.Map.Type().Underlying().(*types.Map)
			d, v := f.mapComps(mt)
			f.mapCur(mt, h)
			add(d, "MapDom", "")
			add(v, "MapVal", "")
		case *ssa.Alloc, *ssa.MakeSlice, *ssa.MakeMap, *ssa.Convert:
			// allocation initialises fresh rows only; handled by freshness (rows >= now are unconstrained anyway)
		case *ssa.Next:
			if !i.IsString {
				if rg, ok := i.Iter.(*ssa.Range); ok {
					if mt, ok := rg.X.Type().Underlying().(*types.Map); ok {
						ks, _ := f.mapSorts(mt)
						add(q("E mapvisited "+ks), fmt.Sprintf("(Array %s Bool)", ks), "")
					}
				}
			}
			add(q("E iterpos"), "Int", "")
		case *ssa.Call:
			c := i.Common()
			if c.IsInvoke() {
				it := c.Value.Type().Underlying().(*types.Interface)
				for _, k := range f.en.u.boxedOrd {
					t := f.en.u.boxed[k]
					if !types.Implements(t, it) {
						continue
					}
					sel := f.en.prog.MethodSets.MethodSet(t).Lookup(c.Method.Pkg(), c.Method.Name())
					if sel == nil {
						continue
					}
					if fn := f.en.prog.MethodValue(sel); fn != nil {
						scanCallee(fn, depth+1, seen)
					}
				}
				return
			}
			switch callee := c.Value.(type) {
			case *ssa.Builtin:
				if callee.Name() == "append" || callee.Name() == "copy" {
					st, ok := c.Args[0].Type().Underlying().(*types.Slice)
					if ok {
						et := st.Elem()
						if isStruct(et) {
							si := f.en.u.structInfo(et)
							for k := 0; !si.Opaque && k < si.St.NumFields(); k++ {
								add(f.en.u.fieldComp(et, si.St.Field(k).Name()), f.en.u.sortOf(si.St.Field(k).Type()), "")
							}
						} else {
							add(f.en.u.cellComp(et), f.en.u.sortOf(et), "")
						}
					}
				}
			case *ssa.Function:
				if inLoopFrame {
					// precise handling for contracts with evaluable modifies
					if ct := f.en.cs.Funcs[funcKey(callee)]; ct != nil && !ct.Inline && !ct.ModAll && !ct.ModInferred {
						ok := true
						var args []Val
						for _, a := range c.Args {
							x, isInv := invariantVal(a)
							if !isInv {
								ok = false
								break
							}
							args = append(args, x)
						}
						if ok {
							ctx := &SpecCtx{f: f, fn: callee, params: args, heap: h, old: h, binds: map[string]Val{}, pkg: pkgOf(callee), quiet: true}
							for _, l := range ct.Lets {
								ctx.binds[l.Name] = ctx.eval(l.E)
							}
							for _, m := range ct.Modifies {
								ts, okk := ctx.lvalueTargets(m)
								if !okk {
									all = true
								}
								for _, t := range ts {
									if lvalueReadsHeap(m) {
										// the designated row depends on memory the loop may change
										add(t.comp, t.sort, "")
									} else {
										add(t.comp, t.sort, t.ref)
									}
								}
							}
							if !ctx.failed {
								return
							}
						}
					}
				}
				scanCallee(callee, depth+1, seen)
			default:
				all = true
			}
		}
	}
	scanCallee = func(fn *ssa.Function, depth int, seen map[*ssa.Function]bool) {
		if seen[fn] {
			return
		}
		seen[fn] = true
		key := funcKey(fn)
		if ct := f.en.cs.Funcs[key]; ct != nil && !ct.Inline {
			if ct.ModAll {
				all = true
				return
			}
			if ct.ModInferred {
				eff := f.en.effects(fn)
				if eff.all {
					all = true
					return
				}
				for _, comp := range sortedKeys(eff.comps) {
					if s := eff.comps[comp]; s == "MapDom" || s == "MapVal" {
						f.vc.mapSort(comp, f.en.mapSortMemo[comp])
					}
					add(comp, eff.comps[comp], "")
				}
				return
			}
			for _, m := range ct.Modifies {
				ts, ok := f.en.lvalueComps(m, fn)
				if !ok {
					all = true
					return
				}
				for _, t := range ts {
					if t.sort == "MapDom" || t.sort == "MapVal" {
						f.vc.mapSort(t.comp, f.en.mapSortMemo[t.comp])
					}
					add(t.comp, t.sort, "")
				}
			}
			return
		}
		if fn.Blocks == nil {
			return // external without contract: assumed effect-free (listed in assumptions at the call)
		}
		for _, b := range fn.Blocks {
			for _, ins := range b.Instrs {
				scanInstr(ins, depth, seen, false)
			}
		}
	}
	var bodyBlocks []*ssa.BasicBlock
	for b := range li.body {
		bodyBlocks = append(bodyBlocks, b)
	}
	sort.Slice(bodyBlocks, func(i, j int) bool { return bodyBlocks[i].Index < bodyBlocks[j].Index })
	for _, b := range bodyBlocks {
		for _, ins := range b.Instrs {
			scanInstr(ins, 0, map[*ssa.Function]bool{}, true)
		}
	}
	// allocation counter moves forward (before the havoc: havocked cells may refer to objects
	// allocated in earlier iterations)
	n := vc.fresh(f.prefix+"now", "Int")
	vc.assume(app(">=", n, h.now))
	h.now = n
	if all {
		vc.havocAll(h)
		vc.notes = append(vc.notes, fmt.Sprintf("%s: loop %d havocs the whole heap", f.fn.Name(), li.n))
	} else {
		for _, comp := range sortedKeys(writes) {
			w := writes[comp]
			if w.sort == "MapDom" || w.sort == "MapVal" {
				vc.havocComp(h, comp, w.sort)
				continue
			}
			if w.refs == nil {
				vc.havocComp(h, comp, w.sort)
				continue
			}
			for _, ref := range sortedKeys(w.refs) {
				vc.havocRow(h, comp, w.sort, ref)
			}
		}
	}
}

// addStoreByType records a store in a callee (no value information): whole component.
func (f *Frame) addStoreByType(addr ssa.Value, add func(comp, sort, ref string)) {
	u := f.en.u
	switch a := addr.(type) {
	case *ssa.FieldAddr:
		root := a
		for {
			inner, ok := root.X.(*ssa.FieldAddr)
			if !ok {
				break
			}
			root = inner
		}
		st := root.X.Type().Underlying().(*types.Pointer).Elem()
		fl := st.Underlying().(*types.Struct).Field(root.Field)
		if _, isAlloc := root.X.(*ssa.Alloc); isAlloc {
			return // callee-local
		}
		add(u.fieldComp(st, fl.Name()), u.sortOf(fl.Type()), "")
	case *ssa.Alloc:
		return
	case *ssa.Global:
		x := f.val(a)
		add(x.Addr.Comp, u.sortOf(x.Addr.CompT), "")
	default:
		pt, ok := addr.Type().Underlying().(*types.Pointer)
		if !ok {
			return
		}
		et := pt.Elem()
		if ia, ok := addr.(*ssa.IndexAddr); ok {
			switch xt := ia.X.Type().Underlying().(type) {
			case *types.Slice:
				et = xt.Elem()
			case *types.Pointer:
				et = xt.Elem().Underlying().(*types.Array).Elem()
				if _, isAlloc := ia.X.(*ssa.Alloc); isAlloc {
					return
				}
			}
		}
		if isStruct(et) {
			si := u.structInfo(et)
			for k := 0; !si.Opaque && k < si.St.NumFields(); k++ {
				add(u.fieldComp(et, si.St.Field(k).Name()), u.sortOf(si.St.Field(k).Type()), "")
			}
		} else {
			add(u.cellComp(et), u.sortOf(et), "")
			for _, comp := range f.fieldCandidates(et) {
				add(comp, u.sortOf(et), "")
			}
		}
	}
}

// ---- range over strings and maps ----

func (f *Frame) rangeInit(i *ssa.Range, reach string, h *Heap) Val {
	ref := f.newRef(h)
	x := f.val(i.X)
	f.vc.setComp(h, q("E iterpos"), "Int", store2(f.vc.cur(h, q("E iterpos"), "Int"), ref, "0", "0"))
	if mt, ok := i.X.Type().Underlying().(*types.Map); ok {
		// iteration over a map: the iterator carries the set of keys already visited
		ks, _ := f.mapSorts(mt)
		comp, srt := q("E mapvisited "+ks), fmt.Sprintf("(Array %s Bool)", ks)
		f.vc.setComp(h, comp, srt, store2(f.vc.cur(h, comp, srt), ref, "0", fmt.Sprintf("((as const (Array %s Bool)) false)", ks)))
	}
	return Val{S: "Ptr", E: mkptr(ref, "0", "0"), T: i.Type(), Tuple: []Val{x}}
}

func (f *Frame) rangeNext(i *ssa.Next, reach string, h *Heap) Val {
	it := f.val(i.Iter)
	vc := f.vc
	res := Val{S: "Tuple", T: i.Type()}
	if !i.IsString && len(it.Tuple) > 0 {
		if mt, ok := it.Tuple[0].T.Underlying().(*types.Map); ok {
			return f.mapNext(i, it, mt, reach, h)
		}
	}
	if !i.IsString || len(it.Tuple) == 0 {
		vc.errorf("%s: range over this kind of value is outside the supported subset", f.fn.Name())
		return f.freshVal("next", i.Type(), h)
	}
	s := it.Tuple[0].E
	cur := vc.cur(h, q("E iterpos"), "Int")
	pos := vc.define(f.prefix+"itpos", "Int", sel2(cur, pref(it.E), "0"))
	ok := app("<", pos, app("slen", s))
	b := app("sat", s, pos)
	r := vc.define(f.prefix+"rune", "Int", ite(app("<", b, "128"), b, app("runeat", s, pos)))
	w := vc.define(f.prefix+"runew", "Int", ite(app("<", b, "128"), "1", app("runew", s, pos)))
	vc.setComp(h, q("E iterpos"), "Int", store2(cur, pref(it.E), "0", ite(ok, app("+", pos, w), pos)))
	// A-UTF8: a rune ends inside the string and its continuation bytes are >= 0x80
	vc.assume(implies(ok, app("<=", app("+", pos, w), app("slen", s))))
	vc.assume(fmt.Sprintf("(forall ((j!u Int)) (! (=> (and (< %s j!u) (< j!u (+ %s %s))) (>= (sat %s j!u) 128)) :pattern ((sat %s j!u))))", pos, pos, w, s, s))
	res.Tuple = []Val{{S: "Bool", E: ok, T: types.Typ[types.Bool]}, {S: "Int", E: pos, T: types.Typ[types.Int]}, {S: "Int", E: r, T: types.Typ[types.Rune]}}
	return res
}

// mapNext: one step of a map iteration. Go visits every key present exactly once in an
// unspecified order (the map is assumed not to be modified by the loop body): the step yields
// some key of the map that has not been visited, and ends exactly when there is none.
func (f *Frame) mapNext(i *ssa.Next, it Val, mt *types.Map, reach string, h *Heap) Val {
	vc := f.vc
	ks, vs := f.mapSorts(mt)
	comp, srt := q("E mapvisited "+ks), fmt.Sprintf("(Array %s Bool)", ks)
	m := it.Tuple[0].E
	dom, val := f.mapCur(mt, h)
	curDom := app("select", dom, m)
	visited := vc.define(f.prefix+"visited", srt, sel2(vc.cur(h, comp, srt), pref(it.E), "0"))
	ok := vc.fresh(f.prefix+"mapok", "Bool")
	k := vc.fresh(f.prefix+"mapkey", ks)
	present := func(key string) string { return and(not(eq(m, "0")), app("select", curDom, key)) }
	vc.assume(implies(ok, and(present(k), not(app("select", visited, k)))))
	vc.assume(implies(not(ok), fmt.Sprintf("(forall ((k!m %s)) (! (=> %s (select %s k!m)) :pattern ((select %s k!m)) :pattern ((select %s k!m))))", ks, present("k!m"), visited, visited, curDom)))
	vc.setComp(h, comp, srt, store2(vc.cur(h, comp, srt), pref(it.E), "0", ite(ok, app("store", visited, k, "true"), visited)))
	v := vc.define(f.prefix+"mapval", vs, app("select", app("select", val, m), k))
	res := Val{S: "Tuple", T: i.Type()}
	tt := i.Type().(*types.Tuple)
	res.Tuple = []Val{{S: "Bool", E: ok, T: types.Typ[types.Bool]}, f.en.mkVal(tt.At(1).Type(), k), f.en.mkVal(tt.At(2).Type(), v)}
	return res
}

// ---- frame checking ----

// modEntry is an evaluated modifies entry of the function under verification.
type modEntry struct {
	comp string
	ref  string // "" => any row
	idx  string // "" => any cell of the row
}

func (f *Frame) frameEntries() ([]modEntry, bool) {
	root := f.frameRoot()
	if root.modCache != nil || root.modAll {
		return root.modCache, root.modAll
	}
	root.modCache = []modEntry{}
	if root.ct == nil {
		return nil, false
	}
	if root.ct.ModAll || root.ct.ModInferred {
		root.modAll = true
		return nil, true
	}
	ctx := &SpecCtx{f: root, fn: root.fn, params: root.params, heap: root.entry, old: root.entry, binds: root.lets, pkg: pkgOf(root.fn)}
	for _, m := range root.ct.Modifies {
		ts, ok := ctx.lvalueTargets(m)
		if !ok {
			f.vc.errorf("cannot evaluate modifies entry %s of %s", m, root.ct.Key)
			continue
		}
		for _, t := range ts {
			root.modCache = append(root.modCache, modEntry{t.comp, t.ref, t.idx})
		}
	}
	return root.modCache, false
}

func (f *Frame) frameOn() bool {
	root := f.frameRoot()
	return root.top && root.ct != nil && !root.noFrame
}

// frameCheck: a store to (comp, base) must hit fresh memory or a modifies entry.
func (f *Frame) frameCheck(a *Addr, h *Heap, reach string, pos token.Pos) {
	f.frameCheckAt(a.Comp, pref(a.Base), pidx(a.Base), reach, pos)
}

func (f *Frame) frameCheckAt(comp, ref, idx, reach string, pos token.Pos) {
	if !f.frameOn() {
		return
	}
	if !strings.HasPrefix(ref, "(") && strings.Contains(ref, "ref!") {
		return // allocated in this activation (syntactically evident)
	}
	entries, all := f.frameEntries()
	if all {
		return
	}
	root := f.frameRoot()
	ok := []string{app(">=", ref, root.entry.now), eq(ref, "0")}
	for _, e := range entries {
		if e.comp != comp {
			continue
		}
		c := "true"
		if e.ref != "" {
			c = and(c, eq(ref, e.ref))
		}
		if e.idx != "" && idx != "" {
			c = and(c, eq(idx, e.idx))
		}
		ok = append(ok, c)
	}
	f.check("modifies", implies(reach, or(ok...)), pos, "write to "+comp+" not covered by the modifies clause")
}

func (f *Frame) frameCheckMap(m Val, h *Heap, reach string, pos token.Pos) {
	mt := m.T.Underlying().(*types.Map)
	d, _ := f.mapComps(mt)
	f.frameCheckAt(d, m.E, "", reach, pos)
}

func (f *Frame) frameCheckElems(s Val, h *Heap, reach string, pos token.Pos) {
	et := s.T.Underlying().(*types.Slice).Elem()
	if isStruct(et) {
		si := f.en.u.structInfo(et)
		if !si.Opaque && si.St.NumFields() > 0 {
			f.frameCheckAt(f.en.u.fieldComp(et, si.St.Field(0).Name()), sref(s.E), "", reach, pos)
		}
		return
	}
	f.frameCheckAt(f.en.u.cellComp(et), sref(s.E), "", reach, pos)
}

func (f *Frame) frameCheckAppend(s Val, inPlace string, h *Heap, reach string, pos token.Pos) {
	if !f.frameOn() {
		return
	}
	// an in-place append writes cells beyond len of a possibly shared backing array
	f.frameCheckElems(s, h, and(reach, inPlace, not(eq(sln(s.E), scp(s.E)))), pos)
}

func (f *Frame) frameCheckAll(reach string, pos token.Pos) {
	if !f.frameOn() {
		return
	}
	_, all := f.frameEntries()
	if !all {
		f.check("modifies", not(reach), pos, "callee may modify anything but the caller's modifies clause is restricted")
	}
}

// lvalueReadsHeap: the modifies entry designates memory through a heap read (elems(x.f),
// x.f.g, ...), so the designated cells can differ from iteration to iteration.
func lvalueReadsHeap(e SExpr) bool {
	switch x := e.(type) {
	case SCall:
		for _, a := range x.Args {
			if containsFieldRead(a) {
				return true
			}
		}
	case SField:
		return containsFieldRead(x.X)
	case SUnary:
		return containsFieldRead(x.X)
	}
	return false
}

func containsFieldRead(e SExpr) bool {
	switch x := e.(type) {
	case SField:
		return true
	case SIndex:
		return true
	case SCall:
		return true
	case SUnary:
		return containsFieldRead(x.X)
	case SAs:
		return containsFieldRead(x.X)
	}
	return false
}
