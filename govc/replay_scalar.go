package main

import (
	"encoding/json"
	"fmt"
	"go/types"
	"os"
	"os/exec"
	"path/filepath"
	"regexp"
	"sort"
	"strconv"
	"strings"
	"time"

	"golang.org/x/tools/go/ssa"
)

// Generic replay for functions whose parameters and results are scalars (integers, booleans,
// strings) or error: the solver's model gives the inputs, the real function is run on them by
// an in-package test injected with `go test -overlay` (nothing is written to the repository),
// and the violation is confirmed
//   - for a no-panic obligation: when the call panics;
//   - for a postcondition: when the query, with the inputs fixed to the model and the results
//     fixed to what the real code returned, is still satisfiable (the real input/output pair
//     violates the clause).

const replayMaxStr = 48

type scalarArg struct {
	name string
	t    types.Type
	term string
	lit  string // Go literal
	show string
}

func scalarKind(t types.Type) string {
	b, ok := t.Underlying().(*types.Basic)
	if !ok {
		return ""
	}
	switch {
	case b.Info()&types.IsInteger != 0:
		return "int"
	case b.Info()&types.IsBoolean != 0:
		return "bool"
	case b.Info()&types.IsString != 0:
		return "string"
	}
	return ""
}

func isErrorType(t types.Type) bool {
	return types.Identical(t, types.Universe.Lookup("error").Type())
}

// replayable: plain function, scalar parameters, scalar-or-error results.
// A parameter that points to a struct of the function's own package is passed as nil or as a
// pointer to the zero value (what the model says about nil-ness); such a replay can only
// confirm a panic, never a postcondition.
func replayable(vc *VC, kind string) bool {
	fn := vc.fnSSA
	if fn == nil || fn.Pkg == nil || len(fn.TypeArgs()) > 0 || fn.Parent() != nil {
		return false
	}
	if len(fn.Params) != len(vc.paramVals) {
		return false
	}
	for _, p := range fn.Params {
		if scalarKind(p.Type()) == "" && !scalarStruct(fn.Pkg.Pkg, p.Type()) && !(kind == "nopanic" && ownStructPtr(fn.Pkg.Pkg, p.Type())) {
			return false
		}
	}
	if kind == "nopanic" {
		return true
	}
	res := fn.Signature.Results()
	for i := 0; i < res.Len(); i++ {
		if scalarKind(res.At(i).Type()) == "" && !isErrorType(res.At(i).Type()) {
			return false
		}
	}
	return true
}

// scalarStruct: a named struct of the function's package all of whose fields are scalars; such a
// parameter or value receiver is rebuilt from the model field by field.
func scalarStruct(pkg *types.Package, t types.Type) bool {
	n, ok := t.(*types.Named)
	if !ok || n.Obj().Pkg() != pkg {
		return false
	}
	st, ok := n.Underlying().(*types.Struct)
	if !ok || st.NumFields() == 0 {
		return false
	}
	for i := 0; i < st.NumFields(); i++ {
		if scalarKind(st.Field(i).Type()) == "" {
			return false
		}
	}
	return true
}

func ownStructPtr(pkg *types.Package, t types.Type) bool {
	pt, ok := t.(*types.Pointer)
	if !ok {
		return false
	}
	n, ok := pt.Elem().(*types.Named)
	if !ok || n.Obj().Pkg() != pkg {
		return false
	}
	_, isStruct := n.Underlying().(*types.Struct)
	return isStruct
}

var getValueLine = regexp.MustCompile(`\(\((.+)\s+(\(- \d+\)|-?\d+|true|false)\)\)`)

// modelValues asks the solver for the values of the terms in the model of the (satisfiable)
// query. Returns term -> value text.
func modelValues(smtFile string, terms []string, timeoutS int) (map[string]string, string) {
	data, err := os.ReadFile(smtFile)
	if err != nil {
		return nil, err.Error()
	}
	body := strings.Replace(string(data), "(get-model)", "", -1)
	var b strings.Builder
	b.WriteString(body)
	for _, t := range terms {
		b.WriteString("(get-value (" + t + "))\n")
	}
	tmp := smtFile + ".values.smt2"
	os.WriteFile(tmp, []byte(b.String()), 0o644)
	defer os.Remove(tmp)
	for _, solver := range []string{"z3-new", "z3"} {
		out, _ := exec.Command(solver, fmt.Sprintf("-T:%d", timeoutS), tmp).CombinedOutput()
		lines := strings.Split(string(out), "\n")
		if len(lines) == 0 || strings.TrimSpace(lines[0]) != "sat" {
			continue
		}
		vals := map[string]string{}
		k := 0
		for _, l := range lines[1:] {
			l = strings.TrimSpace(l)
			if l == "" || k >= len(terms) {
				continue
			}
			m := getValueLine.FindStringSubmatch(l)
			if m == nil {
				return nil, "unparsed get-value answer: " + l
			}
			vals[terms[k]] = m[2]
			k++
		}
		if k == len(terms) {
			return vals, ""
		}
	}
	return nil, "no solver produced a model for the value query"
}

func smtInt(v string) (int64, bool) {
	v = strings.TrimSpace(v)
	neg := false
	if strings.HasPrefix(v, "(- ") {
		neg = true
		v = strings.TrimSuffix(strings.TrimPrefix(v, "(- "), ")")
	}
	n, err := strconv.ParseInt(v, 10, 64)
	if err != nil {
		return 0, false
	}
	if neg {
		n = -n
	}
	return n, true
}

func goStringLit(bs []byte) string {
	var b strings.Builder
	b.WriteString("\"")
	for _, c := range bs {
		fmt.Fprintf(&b, "\\x%02x", c)
	}
	b.WriteString("\"")
	return b.String()
}

// replayScalar runs the model on the real code. Returns (attempted, confirmed, record).
func replayScalar(en *Engine, opts checkOpts, r *obResult) (bool, bool, map[string]any) {
	vc := r.VC
	rec := map[string]any{}
	if (r.O.Kind != "post" && r.O.Kind != "nopanic") || !replayable(vc, r.O.Kind) {
		return false, false, rec
	}
	fn := vc.fnSSA
	queryFile := r.File
	if r.R.Status != "sat" {
		// No model: quantified facts make the solver answer unknown/timeout on a failing goal.
		// Look for a candidate input in the quantifier-free part of the query; a candidate
		// proves nothing by itself - only its replay on the real code does.
		cand, ok := candidateQuery(r.File, vc, fn)
		if !ok {
			return false, false, rec
		}
		queryFile = cand
		rec["candidate_search"] = "the failing query gave no model; inputs come from its quantifier-free part and are validated only by the replay"
	}
	// 1. the inputs of the model: every parameter is a scalar, a struct of scalars (one leaf per
	// field) or, for no-panic obligations, a pointer (nil or zero value)
	type leaf struct {
		param int
		field string // "" for a scalar parameter
		t     types.Type
		term  string
	}
	var leaves []leaf
	for i, p := range fn.Params {
		pt := vc.paramVals[i].E
		if scalarStruct(fn.Pkg.Pkg, p.Type()) {
			si := en.u.structInfo(p.Type())
			st := p.Type().Underlying().(*types.Struct)
			for k := 0; k < st.NumFields(); k++ {
				leaves = append(leaves, leaf{i, st.Field(k).Name(), st.Field(k).Type(), app(en.u.selName(si, st.Field(k).Name()), pt)})
			}
			continue
		}
		leaves = append(leaves, leaf{i, "", p.Type(), pt})
	}
	var terms []string
	for _, lf := range leaves {
		switch scalarKind(lf.t) {
		case "int", "bool":
			terms = append(terms, lf.term)
		case "string":
			terms = append(terms, app("slen", lf.term))
			for k := 0; k < replayMaxStr; k++ {
				terms = append(terms, app("sat", lf.term, num(int64(k))))
			}
		default:
			terms = append(terms, pref(lf.term))
		}
	}
	vals, why := modelValues(queryFile, terms, 20)
	if vals == nil {
		rec["replay_log"] = "model extraction failed: " + why
		return true, false, rec
	}
	var fix []string // SMT assertions that pin the inputs
	leafLit := map[int][]string{}
	leafShow := map[int][]string{}
	for _, lf := range leaves {
		t := lf.term
		lit, show := "", ""
		tn := types.TypeString(lf.t, types.RelativeTo(fn.Pkg.Pkg))
		switch scalarKind(lf.t) {
		case "int":
			n, ok := smtInt(vals[t])
			if !ok {
				rec["replay_log"] = "non-numeric model value for " + fn.Params[lf.param].Name()
				return true, false, rec
			}
			lit, show = fmt.Sprintf("%s(%d)", tn, n), fmt.Sprint(n)
			fix = append(fix, eq(t, num(n)))
		case "bool":
			lit, show = vals[t], vals[t]
			fix = append(fix, eq(t, vals[t]))
		case "string":
			n, ok := smtInt(vals[app("slen", t)])
			if !ok || n < 0 || n > replayMaxStr {
				rec["replay_log"] = fmt.Sprintf("model string %s has length %s: outside the replay bound %d", fn.Params[lf.param].Name(), vals[app("slen", t)], replayMaxStr)
				return true, false, rec
			}
			bs := make([]byte, n)
			fix = append(fix, eq(app("slen", t), num(n)))
			for k := int64(0); k < n; k++ {
				c, _ := smtInt(vals[app("sat", t, num(k))])
				bs[k] = byte(c)
				fix = append(fix, eq(app("sat", t, num(k)), num(int64(bs[k]))))
			}
			lit, show = fmt.Sprintf("%s(%s)", tn, goStringLit(bs)), strconv.Quote(string(bs))
		default:
			n, _ := smtInt(vals[pref(t)])
			if n == 0 {
				lit, show = "nil", "nil"
			} else {
				en := types.TypeString(lf.t.(*types.Pointer).Elem(), types.RelativeTo(fn.Pkg.Pkg))
				lit, show = "&"+en+"{}", "&"+en+"{} (zero value)"
			}
		}
		if lf.field != "" {
			lit, show = lf.field+": "+lit, lf.field+": "+show
		}
		leafLit[lf.param] = append(leafLit[lf.param], lit)
		leafShow[lf.param] = append(leafShow[lf.param], show)
	}
	var args []scalarArg
	for i, p := range fn.Params {
		a := scalarArg{name: p.Name(), t: p.Type()}
		if scalarStruct(fn.Pkg.Pkg, p.Type()) {
			tn := types.TypeString(p.Type(), types.RelativeTo(fn.Pkg.Pkg))
			a.lit = tn + "{" + strings.Join(leafLit[i], ", ") + "}"
			a.show = tn + "{" + strings.Join(leafShow[i], ", ") + "}"
		} else {
			a.lit, a.show = leafLit[i][0], leafShow[i][0]
		}
		args = append(args, a)
	}
	inputs := map[string]string{}
	var lits []string
	for _, a := range args {
		inputs[a.name] = a.show
		lits = append(lits, a.lit)
	}
	rec["inputs"] = inputs
	// 2. run the real function
	pos := en.prog.Fset.Position(fn.Pos())
	dir := filepath.Dir(pos.Filename)
	res := fn.Signature.Results()
	var lhs, prints []string
	for i := 0; i < res.Len(); i++ {
		v := fmt.Sprintf("r%d", i)
		lhs = append(lhs, v)
		switch {
		case isErrorType(res.At(i).Type()):
			prints = append(prints, fmt.Sprintf("fmt.Printf(\"GOVC-RESULT %d error %%t\\n\", %s != nil)", i, v))
		case scalarKind(res.At(i).Type()) == "string":
			prints = append(prints, fmt.Sprintf("fmt.Printf(\"GOVC-RESULT %d string %%x\\n\", []byte(string(%s)))", i, v))
		case scalarKind(res.At(i).Type()) == "bool":
			prints = append(prints, fmt.Sprintf("fmt.Printf(\"GOVC-RESULT %d bool %%t\\n\", bool(%s))", i, v))
		default:
			prints = append(prints, fmt.Sprintf("fmt.Printf(\"GOVC-RESULT %d int %%d\\n\", int64(%s))", i, v))
		}
	}
	call := fmt.Sprintf("%s(%s)", fn.Name(), strings.Join(lits, ", "))
	if fn.Signature.Recv() != nil && len(lits) > 0 {
		call = fmt.Sprintf("(%s).%s(%s)", lits[0], fn.Name(), strings.Join(lits[1:], ", "))
	}
	if r.O.Kind == "nopanic" {
		prints = nil
		for i := range lhs {
			lhs[i] = "_"
		}
		if len(lhs) > 0 {
			call = strings.Join(lhs, ", ") + " = " + call
		}
	} else if len(lhs) > 0 {
		call = strings.Join(lhs, ", ") + " := " + call
	}
	src := fmt.Sprintf(`package %s

import (
	"fmt"
	"testing"
)

// generated by /verif/govc: replay of the counterexample of %s
func TestGovcReplay(t *testing.T) {
	defer func() {
		if r := recover(); r != nil {
			fmt.Printf("GOVC-PANIC %%v\n", r)
		}
	}()
	%s
	%s
	fmt.Println("GOVC-RETURNED")
}
`, fn.Pkg.Pkg.Name(), r.O.Name, call, strings.Join(prints, "\n\t"))
	rec["replay_test"] = src
	scratch, err := os.MkdirTemp("", "govc-replay-")
	if err != nil {
		rec["replay_log"] = err.Error()
		return true, false, rec
	}
	defer os.RemoveAll(scratch)
	testFile := filepath.Join(scratch, "zz_govc_replay_test.go")
	os.WriteFile(testFile, []byte(src), 0o644)
	ov, _ := json.Marshal(map[string]any{"Replace": map[string]string{filepath.Join(dir, "zz_govc_replay_test.go"): testFile}})
	ovFile := filepath.Join(scratch, "overlay.json")
	os.WriteFile(ovFile, ov, 0o644)
	cmd := exec.Command("go", "test", "-overlay", ovFile, "-vet=off", "-count=1", "-timeout", "60s", "-run", "^TestGovcReplay$", "-v", ".")
	cmd.Dir = dir
	cmd.Env = cleanEnv()
	done := make(chan struct{})
	var out []byte
	go func() { out, _ = cmd.CombinedOutput(); close(done) }()
	select {
	case <-done:
	case <-time.After(120 * time.Second):
		if cmd.Process != nil {
			cmd.Process.Kill()
		}
		rec["replay_log"] = "the replay test did not finish within 120 s"
		return true, false, rec
	}
	log := string(out)
	rec["replay_log"] = truncate(log, 4000)
	rec["replayed_on_real_code"] = true
	panicked := strings.Contains(log, "GOVC-PANIC")
	returned := strings.Contains(log, "GOVC-RETURNED")
	if !panicked && !returned {
		return true, false, rec // did not build or did not run
	}
	if r.O.Kind == "nopanic" {
		rec["observed"] = map[string]any{"panicked": panicked}
		if !panicked {
			ws, log := enumeratePanic(en, fn, dir)
			rec["enumeration_log"] = truncate(log, 2000)
			// the filter uses the quantifier-free part of the query (a pinned query with
			// quantifiers is answered "unknown"); that is only adequate when the precondition
			// itself is quantifier-free, otherwise no witness is accepted
			body := ""
			if ct := en.cs.Funcs[funcKey(fn)]; ct != nil && requiresQuantFree(en, ct) {
				if data, err := os.ReadFile(r.File); err == nil {
					var qb strings.Builder
					for _, l := range strings.Split(string(data), "\n") {
						if strings.HasPrefix(l, "(assert") && (strings.Contains(l, "(forall ") || strings.Contains(l, "(exists ")) && !strings.HasPrefix(l, "(assert (not ") {
							continue
						}
						qb.WriteString(l + "\n")
					}
					body = qb.String()
				}
			}
			if j := strings.LastIndex(body, "(check-sat)"); j >= 0 && len(ws) > 0 {
				for wi, w := range ws {
					if wi >= 60 || len(w) != len(fn.Params)+1 {
						break
					}
					// the witness counts only if the solver agrees that it satisfies the
					// precondition and reaches the failing site (the pinned query is satisfiable)
					fix, show := pinsFor(vc, fn, w)
					var b strings.Builder
					b.WriteString(body[:j])
					for _, a := range fix {
						b.WriteString("(assert " + a + ")\n")
					}
					b.WriteString("(check-sat)\n")
					cf := strings.TrimSuffix(r.File, ".smt2") + ".witness.smt2"
					os.WriteFile(cf, []byte(b.String()), 0o644)
					if quickSat(cf, 3) {
						rec["witness_source"] = "bounded enumeration of short inputs over the byte constants of the function; kept because the (quantifier-free) precondition and path condition admit it and the real call panics"
						rec["inputs"] = show
						rec["observed"] = map[string]any{"panicked": true, "panic": w[len(w)-1]}
						rec["confirm_query"] = cf
						return true, true, rec
					}
				}
			}
		}
		return true, panicked, rec
	}
	if panicked || len(r.O.Res) != res.Len() {
		rec["observed"] = map[string]any{"panicked": panicked}
		return true, false, rec
	}
	// 3. the real input/output pair against the clause
	observed := map[string]string{}
	for _, l := range strings.Split(log, "\n") {
		f := strings.Fields(strings.TrimSpace(l))
		if len(f) < 3 || f[0] != "GOVC-RESULT" {
			continue
		}
		i, _ := strconv.Atoi(f[1])
		if i >= len(r.O.Res) {
			continue
		}
		t := r.O.Res[i].E
		val := ""
		if len(f) > 3 {
			val = f[3]
		}
		switch f[2] {
		case "int":
			n, _ := strconv.ParseInt(val, 10, 64)
			fix = append(fix, eq(t, num(n)))
			observed[fmt.Sprintf("result.%d", i)] = val
		case "bool":
			fix = append(fix, eq(t, val))
			observed[fmt.Sprintf("result.%d", i)] = val
		case "error":
			if val == "true" {
				fix = append(fix, not(eq(t, "inil")))
			} else {
				fix = append(fix, eq(t, "inil"))
			}
			observed[fmt.Sprintf("result.%d", i)] = "error!=nil:" + val
		case "string":
			bs := []byte{}
			for k := 0; k+1 < len(val); k += 2 {
				c, _ := strconv.ParseUint(val[k:k+2], 16, 8)
				bs = append(bs, byte(c))
			}
			fix = append(fix, eq(app("slen", t), num(int64(len(bs)))))
			for k, c := range bs {
				fix = append(fix, eq(app("sat", t, num(int64(k))), num(int64(c))))
			}
			observed[fmt.Sprintf("result.%d", i)] = strconv.Quote(string(bs))
		}
	}
	rec["observed"] = observed
	data, err := os.ReadFile(r.File)
	if err != nil {
		return true, false, rec
	}
	body := string(data)
	j := strings.LastIndex(body, "(check-sat)")
	if j < 0 {
		return true, false, rec
	}
	var b strings.Builder
	b.WriteString(body[:j])
	for _, a := range fix {
		b.WriteString("(assert " + a + ")\n")
	}
	b.WriteString("(check-sat)\n")
	cf := strings.TrimSuffix(r.File, ".smt2") + ".replay.smt2"
	os.WriteFile(cf, []byte(b.String()), 0o644)
	cr := solve(cf, 20, false)
	rec["confirm_query"] = cf
	rec["confirm_status"] = cr.Status
	if cr.Status != "sat" {
		return true, false, rec
	}
	// The violation is confirmed only if the real input/output pair makes the clause false in
	// EVERY model: with the same pins the clause itself must be unsatisfiable. (When the clause
	// mentions uninterpreted specification functions the solver can otherwise choose them so
	// that a correct output "violates" it.)
	k := strings.LastIndex(body[:j], "(assert (not ")
	if k < 0 {
		return true, false, rec
	}
	line := body[k:j]
	if nl := strings.Index(line, "\n"); nl >= 0 {
		line = line[:nl]
	}
	goal := strings.TrimSuffix(strings.TrimPrefix(line, "(assert (not "), "))")
	var b2 strings.Builder
	b2.WriteString(body[:k])
	// not(R => G) is R and not G: the complementary question is R and G
	for strings.HasPrefix(goal, "(=> ") {
		parts := splitTop(goal[4 : len(goal)-1])
		if len(parts) != 2 {
			break
		}
		b2.WriteString("(assert " + parts[0] + ")\n")
		goal = parts[1]
	}
	b2.WriteString("(assert " + goal + ")\n")
	b2.WriteString(body[k+len(line):j])
	for _, a := range fix {
		b2.WriteString("(assert " + a + ")\n")
	}
	b2.WriteString("(check-sat)\n")
	cf2 := strings.TrimSuffix(r.File, ".smt2") + ".replay2.smt2"
	os.WriteFile(cf2, []byte(b2.String()), 0o644)
	cr2 := solve(cf2, 20, false)
	rec["clause_can_hold_status"] = cr2.Status
	if cr2.Status != "unsat" {
		rec["note"] = "the real code was run on the model's input, but the clause is not determined by that input/output pair alone (it mentions specification functions the solver may interpret freely): not counted as a replayed counterexample"
		return true, false, rec
	}
	return true, true, rec
}

// candidateQuery writes the query without its quantified assertions, with the string
// parameters bounded, and reports whether it is satisfiable.
func candidateQuery(file string, vc *VC, fn *ssa.Function) (string, bool) {
	data, err := os.ReadFile(file)
	if err != nil {
		return "", false
	}
	var b strings.Builder
	for _, l := range strings.Split(string(data), "\n") {
		if strings.HasPrefix(l, "(assert") && (strings.Contains(l, "(forall ") || strings.Contains(l, "(exists ")) && !strings.HasPrefix(l, "(assert (not ") {
			continue
		}
		if strings.HasPrefix(l, "(check-sat)") || strings.HasPrefix(l, "(get-model)") {
			continue
		}
		b.WriteString(l + "\n")
	}
	for i, p := range fn.Params {
		if scalarKind(p.Type()) == "string" {
			t := vc.paramVals[i].E
			b.WriteString(fmt.Sprintf("(assert (and (<= 0 (slen %s)) (<= (slen %s) %d)))\n", t, t, replayMaxStr))
			for k := 0; k < replayMaxStr; k++ {
				b.WriteString(fmt.Sprintf("(assert (and (<= 0 (sat %s %d)) (< (sat %s %d) 128)))\n", t, k, t, k))
			}
		}
	}
	b.WriteString("(check-sat)\n")
	out := strings.TrimSuffix(file, ".smt2") + ".candidate.smt2"
	os.WriteFile(out, []byte(b.String()), 0o644)
	for _, solver := range []string{"z3-new", "z3"} {
		o, _ := exec.Command(solver, "-T:10", out).CombinedOutput()
		if strings.HasPrefix(strings.TrimSpace(string(o)), "sat") {
			return out, true
		}
	}
	return out, false
}

// enumeratePanic searches short inputs on which the real function panics: strings up to
// length 4 over the byte constants that occur in the function (plus 'a' and '0'), integers
// -1..5, booleans, nil / zero-value pointers. It returns the witnesses in enumeration order
// (each a list of encoded argument values); the caller keeps only one that the solver accepts
// as satisfying the precondition. Finding none proves nothing.
func enumeratePanic(en *Engine, fn *ssa.Function, dir string) ([][]string, string) {
	alpha := map[byte]bool{'a': true, '0': true}
	for _, b := range fn.Blocks {
		for _, ins := range b.Instrs {
			for _, op := range ins.Operands(nil) {
				if c, ok := (*op).(*ssa.Const); ok && c.Value != nil && scalarKind(c.Type()) == "int" {
					if v := c.Int64(); v > 32 && v < 127 {
						alpha[byte(v)] = true
					}
				}
			}
		}
	}
	var ab []byte
	for c := range alpha {
		ab = append(ab, c)
	}
	sort.Slice(ab, func(i, j int) bool { return ab[i] < ab[j] })
	if len(ab) > 14 {
		ab = ab[:14]
	}
	var loops, args, encs []string
	nstr := 0
	for i, p := range fn.Params {
		v := fmt.Sprintf("a%d", i)
		tn := types.TypeString(p.Type(), types.RelativeTo(fn.Pkg.Pkg))
		switch scalarKind(p.Type()) {
		case "string":
			nstr++
			loops = append(loops, fmt.Sprintf("for _, s%d := range strs {\n%s := %s(s%d)", i, v, tn, i))
			encs = append(encs, fmt.Sprintf("fmt.Sprintf(\"%%x\", []byte(string(%s)))", v))
		case "int":
			loops = append(loops, fmt.Sprintf("for _, i%d := range []int64{0, 1, 2, 3, 4, 5} {\n%s := %s(i%d)", i, v, tn, i))
			encs = append(encs, fmt.Sprintf("fmt.Sprint(int64(%s))", v))
		case "bool":
			loops = append(loops, fmt.Sprintf("for _, %s := range []bool{false, true} {", v))
			encs = append(encs, fmt.Sprintf("fmt.Sprint(bool(%s))", v))
		default:
			en := types.TypeString(p.Type().(*types.Pointer).Elem(), types.RelativeTo(fn.Pkg.Pkg))
			loops = append(loops, fmt.Sprintf("for _, %s := range []%s{&%s{}, nil} {", v, tn, en))
			encs = append(encs, fmt.Sprintf("map[bool]string{true: \"nil\", false: \"zero\"}[%s == nil]", v))
		}
		args = append(args, v)
	}
	if nstr > 2 || len(fn.Params) > 5 || len(fn.Params) == 0 || fn.Signature.Recv() != nil {
		return nil, ""
	}
	for _, p := range fn.Params {
		if scalarStruct(fn.Pkg.Pkg, p.Type()) {
			return nil, ""
		}
	}
	maxLen := 4
	if nstr == 2 {
		maxLen = 2
	}
	src := fmt.Sprintf(`package %s

import (
	"fmt"
	"strings"
	"testing"
)

// generated by /verif/govc: bounded search for inputs on which %s panics
func TestGovcEnumerate(t *testing.T) {
	alpha := %#v
	strs := []string{""}
	for n, from := 0, 0; n < %d; n++ {
		to := len(strs)
		for _, s := range strs[from:to] {
			for _, c := range alpha {
				strs = append(strs, s+string(rune(c)))
			}
		}
		from = to
	}
	found := 0
	try := func(enc []string, f func()) {
		defer func() {
			if r := recover(); r != nil && found < 400 {
				found++
				fmt.Printf("GOVC-WITNESS %%s | %%v\n", strings.Join(enc, ";"), r)
			}
		}()
		f()
	}
	%s
	try([]string{%s}, func() { %s(%s) })
	%s
	fmt.Println("GOVC-DONE")
}
`, fn.Pkg.Pkg.Name(), fn.Name(), ab, maxLen, strings.Join(loops, "\n"), strings.Join(encs, ", "), fn.Name(), strings.Join(args, ", "), strings.Repeat("}\n", len(loops)))
	scratch, err := os.MkdirTemp("", "govc-enum-")
	if err != nil {
		return nil, err.Error()
	}
	defer os.RemoveAll(scratch)
	testFile := filepath.Join(scratch, "zz_govc_enum_test.go")
	os.WriteFile(testFile, []byte(src), 0o644)
	ov, _ := json.Marshal(map[string]any{"Replace": map[string]string{filepath.Join(dir, "zz_govc_enum_test.go"): testFile}})
	ovFile := filepath.Join(scratch, "overlay.json")
	os.WriteFile(ovFile, ov, 0o644)
	cmd := exec.Command("go", "test", "-overlay", ovFile, "-vet=off", "-count=1", "-timeout", "90s", "-run", "^TestGovcEnumerate$", "-v", ".")
	cmd.Dir = dir
	cmd.Env = cleanEnv()
	out, _ := cmd.CombinedOutput()
	var ws [][]string
	for _, l := range strings.Split(string(out), "\n") {
		if strings.HasPrefix(l, "GOVC-WITNESS ") {
			body := strings.TrimPrefix(l, "GOVC-WITNESS ")
			if j := strings.Index(body, " | "); j >= 0 {
				ws = append(ws, append(strings.Split(body[:j], ";"), body[j+3:]))
			}
		}
	}
	return ws, string(out)
}

// pinsFor turns encoded argument values into assertions over the parameters of the query.
func pinsFor(vc *VC, fn *ssa.Function, enc []string) ([]string, map[string]string) {
	var fix []string
	show := map[string]string{}
	for i, p := range fn.Params {
		t := vc.paramVals[i].E
		switch scalarKind(p.Type()) {
		case "int":
			n, _ := strconv.ParseInt(enc[i], 10, 64)
			fix = append(fix, eq(t, num(n)))
			show[p.Name()] = enc[i]
		case "bool":
			fix = append(fix, eq(t, enc[i]))
			show[p.Name()] = enc[i]
		case "string":
			var bs []byte
			for k := 0; k+1 < len(enc[i]); k += 2 {
				c, _ := strconv.ParseUint(enc[i][k:k+2], 16, 8)
				bs = append(bs, byte(c))
			}
			fix = append(fix, eq(app("slen", t), num(int64(len(bs)))))
			for k, c := range bs {
				fix = append(fix, eq(app("sat", t, num(int64(k))), num(int64(c))))
			}
			show[p.Name()] = strconv.Quote(string(bs))
		default:
			if enc[i] == "nil" {
				fix = append(fix, eq(pref(t), "0"))
				show[p.Name()] = "nil"
			} else {
				fix = append(fix, not(eq(pref(t), "0")))
				show[p.Name()] = "pointer to the zero value"
			}
		}
	}
	return fix, show
}

// quickSat: one solver, short timeout, "sat" or nothing.
func quickSat(file string, timeoutS int) bool {
	out, _ := exec.Command("z3-new", fmt.Sprintf("-T:%d", timeoutS), file).CombinedOutput()
	return strings.HasPrefix(strings.TrimSpace(string(out)), "sat")
}

// requiresQuantFree: no requires/presumes clause of the contract contains a quantifier, also
// not through the predicates it mentions.
func requiresQuantFree(en *Engine, ct *FuncContract) bool {
	seen := map[string]bool{}
	var free func(src string, depth int) bool
	ident := regexp.MustCompile(`[A-Za-z_][A-Za-z0-9_]*`)
	free = func(src string, depth int) bool {
		if strings.Contains(src, "forall") || strings.Contains(src, "exists") {
			return false
		}
		if depth > 8 {
			return false
		}
		for _, id := range ident.FindAllString(src, -1) {
			if pd, ok := en.cs.Preds[id]; ok && !seen[id] {
				seen[id] = true
				if !free(pd.Body.String(), depth+1) {
					return false
				}
			}
		}
		return true
	}
	for _, c := range ct.Requires {
		if !free(c.Src, 0) {
			return false
		}
	}
	for _, c := range ct.Presumes {
		if !free(c.Src, 0) {
			return false
		}
	}
	return true
}
