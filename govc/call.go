package main

import (
	"fmt"
	"go/token"
	"go/types"
	"os"
	"sort"
	"strings"

	"golang.org/x/tools/go/ssa"
)

func (vc *VC) mapSort(comp, sort string) {
	if vc.mapSorts == nil {
		vc.mapSorts = map[string]string{}
	}
	vc.mapSorts[comp] = sort
}

// call handles a call instruction; returns the result value and the reach condition after it.
func (f *Frame) call(i *ssa.Call, reach string, h *Heap) (Val, string) {
	c := i.Common()
	var args []Val
	for _, a := range c.Args {
		args = append(args, f.val(a))
	}
	if c.IsInvoke() {
		return f.invoke(i, c, f.val(c.Value), args, reach, h)
	}
	switch callee := c.Value.(type) {
	case *ssa.Builtin:
		return f.builtin(i, callee.Name(), args, reach, h)
	case *ssa.Function:
		return f.callStatic(callee, args, reach, h, i.Pos(), i.Type())
	}
	f.vc.errorf("%s: dynamic call of %s outside the supported subset", f.fn.Name(), c.Value.Name())
	f.vc.havocAll(h)
	return f.freshVal("dyncall", i.Type(), h), reach
}

func (f *Frame) builtin(i *ssa.Call, name string, args []Val, reach string, h *Heap) (Val, string) {
	vc := f.vc
	switch name {
	case "len":
		x := args[0]
		switch x.S {
		case "Str":
			return Val{S: "Int", E: app("slen", x.E), T: i.Type()}, reach
		case "Slice":
			return Val{S: "Int", E: sln(x.E), T: i.Type()}, reach
		case "Int": // map
			if mt, ok := x.T.Underlying().(*types.Map); ok {
				dom, _ := f.mapCur(mt, h)
				n := vc.define(f.prefix+"maplen", "Int", app(f.mapCard(mt), app("select", dom, x.E)))
				return Val{S: "Int", E: n, T: i.Type()}, reach
			}
		}
	case "cap":
		if args[0].S == "Slice" {
			return Val{S: "Int", E: scp(args[0].E), T: i.Type()}, reach
		}
	case "append":
		return f.appendOp(i, args, reach, h), reach
	case "copy":
		return f.copyOp(i, args, reach, h), reach
	case "print", "println":
		return Val{S: "Tuple", T: i.Type()}, reach
	}
	vc.errorf("%s: builtin %s unsupported", f.fn.Name(), name)
	return f.freshVal("builtin", i.Type(), h), reach
}

func (f *Frame) mapCard(mt *types.Map) string {
	ks, _ := f.mapSorts(mt)
	n := q("card " + ks)
	if !f.vc.specDecl[n] {
		f.vc.specDecl[n] = true
		f.vc.specLines = append(f.vc.specLines, fmt.Sprintf("(declare-fun %s ((Array %s Bool)) Int)", n, ks),
			fmt.Sprintf("(assert (= (%s ((as const (Array %s Bool)) false)) 0))", n, ks))
	}
	return n
}

// appendOp models append(s, t...). Both outcomes (in place / reallocation) are covered by
// leaving the choice to an unconstrained boolean when capacity suffices is NOT allowed by Go:
// append is in place iff len+n <= cap.
func (f *Frame) appendOp(i *ssa.Call, args []Val, reach string, h *Heap) Val {
	vc := f.vc
	s, t := args[0], args[1]
	st := i.Type().Underlying().(*types.Slice)
	et := st.Elem()
	if t.S == "Str" {
		vc.errorf("append(bytes, string...) unsupported")
		return f.freshVal("append", i.Type(), h)
	}
	n := sln(t.E)
	newLen := vc.define(f.prefix+"alen", "Int", app("+", sln(s.E), n))
	inPlace := vc.define(f.prefix+"inplace", "Bool", app("<=", newLen, scp(s.E)))
	newRef := vc.fresh(f.prefix+"ref", "Int")
	vc.assume(eq(newRef, h.now))
	h.now = vc.define(f.prefix+"now", "Int", app("+", newRef, "1"))
	newCap := vc.fresh(f.prefix+"acap", "Int")
	vc.assume(app(">=", newCap, newLen))
	res := vc.define(f.prefix+"app", "Slice", ite(inPlace, mkslice(sref(s.E), slo(s.E), newLen, scp(s.E)), mkslice(newRef, "0", newLen, newCap)))
	// element transfer, per element component
	type compInfo struct {
		name, sort string
	}
	var comps []compInfo
	if isStruct(et) {
		si := f.en.u.structInfo(et)
		if !si.Opaque {
			for k := 0; k < si.St.NumFields(); k++ {
				fl := si.St.Field(k)
				comps = append(comps, compInfo{f.en.u.fieldComp(et, fl.Name()), f.en.u.sortOf(fl.Type())})
			}
		}
	} else {
		comps = append(comps, compInfo{f.en.u.cellComp(et), f.en.u.sortOf(et)})
	}
	f.frameCheckAppend(s, inPlace, h, reach, i.Pos())
	for _, ci := range comps {
		cur := vc.cur(h, ci.name, ci.sort)
		oldRow := app("select", cur, sref(s.E))
		srcRow := app("select", cur, sref(t.E))
		row := vc.fresh("row "+strings.Trim(ci.name, "|"), fmt.Sprintf("(Array Int %s)", ci.sort))
		j := "j!a"
		base := vc.define(f.prefix+"abase", "Int", ite(inPlace, slo(s.E), "0"))
		// cells of the result slice: old elements then appended ones; other cells of an
		// in-place row are unchanged. Facts are keyed by the result index (DESIGN §8.4).
		body := ite(and(app("<=", base, j), app("<", j, app("+", base, sln(s.E)))),
			app("select", oldRow, app("+", slo(s.E), app("-", j, base))),
			ite(and(app("<=", app("+", base, sln(s.E)), j), app("<", j, app("+", base, newLen))),
				app("select", srcRow, app("+", slo(t.E), app("-", j, app("+", base, sln(s.E))))),
				ite(inPlace, app("select", oldRow, j), f.en.u.zeroOfSort(ci.sort))))
		vc.assume(fmt.Sprintf("(forall ((%s Int)) (! (= (select %s %s) %s) :pattern ((select %s %s))))", j, row, j, body, row, j))
		vc.setComp(h, ci.name, ci.sort, app("store", cur, sref(res), row))
	}
	return Val{S: "Slice", E: res, T: i.Type()}
}

func (f *Frame) copyOp(i *ssa.Call, args []Val, reach string, h *Heap) Val {
	vc := f.vc
	dst, src := args[0], args[1]
	et := dst.T.Underlying().(*types.Slice).Elem()
	if isStruct(et) {
		vc.errorf("copy of struct slices unsupported")
		return f.freshVal("copy", i.Type(), h)
	}
	comp := f.en.u.cellComp(et)
	es := f.en.u.sortOf(et)
	cur := vc.cur(h, comp, es)
	var srcLen, srcAt string
	if src.S == "Str" {
		srcLen = app("slen", src.E)
	} else {
		srcLen = sln(src.E)
	}
	n := vc.define(f.prefix+"ncopy", "Int", ite(app("<", sln(dst.E), srcLen), sln(dst.E), srcLen))
	f.frameCheckElems(dst, h, reach, i.Pos())
	oldRow := app("select", cur, sref(dst.E))
	row := vc.fresh("row "+strings.Trim(comp, "|"), fmt.Sprintf("(Array Int %s)", es))
	j := "j!c"
	if src.S == "Str" {
		srcAt = app("sat", src.E, app("-", j, slo(dst.E)))
	} else {
		srcAt = app("select", app("select", cur, sref(src.E)), app("+", slo(src.E), app("-", j, slo(dst.E))))
	}
	body := ite(and(app("<=", slo(dst.E), j), app("<", j, app("+", slo(dst.E), n))), srcAt, app("select", oldRow, j))
	vc.assume(fmt.Sprintf("(forall ((%s Int)) (! (= (select %s %s) %s) :pattern ((select %s %s))))", j, row, j, body, row, j))
	vc.setComp(h, comp, es, app("store", cur, sref(dst.E), row))
	return Val{S: "Int", E: n, T: i.Type()}
}

func (u *Universe) zeroOfSort(s string) string {
	switch s {
	case "Int":
		return "0"
	case "Bool":
		return "false"
	case "Str":
		return "sempty"
	case "Ptr":
		return nilPtr
	case "Slice":
		return nilSlice
	case "Iface":
		return "inil"
	case "Fn":
		return "fnnil"
	case "Real":
		return "0.0"
	}
	for _, k := range u.structOrd {
		if u.structs[k].Sort == s {
			return u.zeroOf(u.structs[k].T)
		}
	}
	return "0"
}

// callStatic applies the callee's contract or inlines it.
func (f *Frame) callStatic(callee *ssa.Function, args []Val, reach string, h *Heap, pos token.Pos, rt types.Type) (Val, string) {
	key := funcKey(callee)
	if f.top && f.ct != nil {
		// "callee#k" addresses the k-th call site of the callee only (in generation order)
		if f.callOrd == nil {
			f.callOrd = map[string]int{}
		}
		f.callOrd[callee.Name()]++
		cls := append([]Clause{}, f.ct.AtCall[callee.Name()]...)
		cls = append(cls, f.ct.AtCall[fmt.Sprintf("%s#%d", callee.Name(), f.callOrd[callee.Name()])]...)
		for _, cl := range f.en.activeClauses(cls, f.ct) {
			ctx := f.specCtx(h, nil)
			ctx.locals = true
			ctx.callArgs = args
			name := f.vc.siteName("atcall." + clauseName(cl, 0) + "@" + callee.Name())
			goal, why := f.vc.checkedGoal(ctx, cl.E)
			cl.Src += why
			// after a wide control-flow join (a switch): one obligation per incoming path
			var paths []string
			if f.depth == 0 && f.vc.curBlk >= 0 && f.vc.curBlk < len(f.fn.Blocks) && goal != "true" && why == "" {
				paths = f.splitConds(f.fn.Blocks[f.vc.curBlk])
			}
			if len(paths) > 8 {
				for pi, pc := range paths {
					f.vc.oblige(fmt.Sprintf("%s/path#%d", name, pi+1), "assert", implies(and(pc, reach), goal), clauseProps(cl, f.ctProps()), f.where(pos)+" / via "+f.splitWhere[pi], "at the call of "+callee.Name()+": "+cl.Src)
				}
				continue
			}
			f.vc.oblige(name, "assert", implies(reach, goal), clauseProps(cl, f.ctProps()), f.where(pos), "at the call of "+callee.Name()+": "+cl.Src)
		}
	}
	ct := f.en.cs.Funcs[key]
	if ct != nil && !ct.Inline {
		return f.applyContract(callee, ct, args, reach, h, pos, rt)
	}
	if sp, ok := f.en.special(f, callee, key, args, reach, h, pos, rt); ok {
		return sp, reach
	}
	if callee.Blocks == nil || !f.en.inRepo(callee) {
		// external without contract
		f.vc.assumed = append(f.vc.assumed, "external call without contract, result unconstrained, no memory effect assumed: "+key)
		return f.freshVal(f.prefix+"ext "+callee.Name(), rt, h), reach
	}
	// inline
	for _, s := range f.stack {
		if s == key {
			f.vc.errorf("%s: recursive call of %s needs a contract", f.fn.Name(), key)
			f.vc.havocAll(h)
			return f.freshVal("rec", rt, h), reach
		}
	}
	if f.depth >= f.en.inlineMax {
		f.vc.errorf("%s: inlining depth exceeded at %s; give it a contract", f.fn.Name(), key)
		f.vc.havocAll(h)
		return f.freshVal("deep", rt, h), reach
	}
	return f.inline(callee, ct, key, args, reach, h, pos, rt)
}

func (f *Frame) inline(callee *ssa.Function, ct *FuncContract, key string, args []Val, reach string, h *Heap, pos token.Pos, rt types.Type) (Val, string) {
	f.vc.nfresh++
	sub := &Frame{en: f.en, vc: f.vc, fn: callee, prefix: fmt.Sprintf("%s%s.%d:", f.prefix, callee.Name(), f.vc.nfresh),
		env: map[ssa.Value]Val{}, params: args, entry: h.clone(), lets: map[string]Val{}, ct: ct, top: false,
		depth: f.depth + 1, stack: append(append([]string{}, f.stack...), key), props: f.props,
		callPath: f.callPath + callee.Name() + ">", frameOwner: f.frameRoot()}
	for k, p := range callee.Params {
		sub.env[p] = args[k]
	}
	for k, fv := range callee.FreeVars {
		_ = k
		sub.env[fv] = sub.freshVal("freevar", fv.Type(), h)
	}
	sub.run(reach, h)
	if len(sub.rets) == 0 {
		// never returns
		return f.freshVal("noret", rt, h), "false"
	}
	var conds []string
	var heaps []*Heap
	for _, r := range sub.rets {
		conds = append(conds, r.reach)
		heaps = append(heaps, r.heap)
	}
	outReach := f.vc.define(f.prefix+"Rret", "Bool", or(conds...))
	merged := f.mergeHeaps(conds, heaps)
	h.ver, h.now, h.gen = merged.ver, merged.now, merged.gen
	nres := len(sub.rets[0].vals)
	mergeAt := func(k int) Val {
		v := sub.rets[len(sub.rets)-1].vals[k]
		t := v.E
		for j := len(sub.rets) - 2; j >= 0; j-- {
			t = ite(conds[j], sub.rets[j].vals[k].E, t)
		}
		return Val{S: v.S, E: f.vc.define(f.prefix+"ret "+callee.Name(), v.S, t), T: v.T}
	}
	switch nres {
	case 0:
		return Val{S: "Tuple", T: rt}, outReach
	case 1:
		return mergeAt(0), outReach
	}
	res := Val{S: "Tuple", T: rt}
	for k := 0; k < nres; k++ {
		res.Tuple = append(res.Tuple, mergeAt(k))
	}
	return res, outReach
}

func (f *Frame) frameRoot() *Frame {
	if f.frameOwner != nil {
		return f.frameOwner
	}
	return f
}

// invoke dispatches an interface method call over the closed world of boxed types.
func (f *Frame) invoke(i *ssa.Call, c *ssa.CallCommon, recv Val, args []Val, reach string, h *Heap) (Val, string) {
	u := f.en.u
	it := c.Value.Type().Underlying().(*types.Interface)
	f.check("nopanic.nil", implies(reach, not(eq(recv.E, "inil"))), i.Pos(), "method call on nil interface")
	type cand struct {
		t  types.Type
		fn *ssa.Function
	}
	var cands []cand
	bk := append([]string{}, u.boxedOrd...)
	sort.Strings(bk)
	for _, k := range bk {
		t := u.boxed[k]
		if !types.Implements(t, it) {
			continue
		}
		sel := f.en.prog.MethodSets.MethodSet(t).Lookup(c.Method.Pkg(), c.Method.Name())
		if sel == nil {
			continue
		}
		fn := f.en.prog.MethodValue(sel)
		if fn == nil {
			continue
		}
		cands = append(cands, cand{t, fn})
	}
	if len(cands) == 0 {
		// an interface of a dependency: an assumed contract "<iface>.<Method>" may describe the
		// method as a pure function of the receiver ("self") and the arguments ("arg0", ...)
		key := typeKey(c.Value.Type()) + "." + c.Method.Name()
		res := f.freshVal("invoke", i.Type(), h)
		if ct := f.en.cs.Funcs[key]; ct != nil && ct.Trusted {
			ctx := &SpecCtx{f: f, fn: f.fn, params: f.params, heap: h, old: h, binds: map[string]Val{"self": recv}, result: &res, pkg: pkgOf(f.fn), callArgs: args}
			for _, en := range ct.Ensures {
				f.vc.assume(implies(reach, f.vc.assumedClause(ctx, en.E)))
			}
			return res, reach
		}
		f.vc.assumed = append(f.vc.assumed, fmt.Sprintf("interface call %s has no known implementation: result unconstrained", key))
		return res, reach
	}
	var conds []string
	var heaps []*Heap
	var vals []Val
	var reaches []string
	for _, cd := range cands {
		g := f.vc.define(f.prefix+"Rdisp", "Bool", and(reach, app("(_ is "+u.boxName(cd.t)+")", recv.E)))
		hh := h.clone()
		rv := f.en.mkVal(cd.t, app(u.unboxName(cd.t), recv.E))
		v, r2 := f.callStatic(cd.fn, append([]Val{rv}, args...), g, hh, i.Pos(), i.Type())
		conds = append(conds, g)
		heaps = append(heaps, hh)
		vals = append(vals, v)
		reaches = append(reaches, r2)
	}
	// closed world: the receiver is one of the known types
	var known []string
	for _, cd := range cands {
		known = append(known, app("(_ is "+u.boxName(cd.t)+")", recv.E))
	}
	f.vc.closedWorld = append(f.vc.closedWorld, fmt.Sprintf("%s.%s: %d implementations", typeKey(c.Value.Type()), c.Method.Name(), len(cands)))
	f.vc.assume(implies(reach, or(append(known, eq(recv.E, "inil"))...)))
	merged := f.mergeHeaps(conds, heaps)
	h.ver, h.now, h.gen = merged.ver, merged.now, merged.gen
	out := f.vc.define(f.prefix+"Rinv", "Bool", or(reaches...))
	merge := func(get func(Val) Val) Val {
		last := get(vals[len(vals)-1])
		t := last.E
		for j := len(vals) - 2; j >= 0; j-- {
			t = ite(conds[j], get(vals[j]).E, t)
		}
		return Val{S: last.S, E: f.vc.define(f.prefix+"inv "+c.Method.Name(), last.S, t), T: last.T}
	}
	if vals[0].S == "Tuple" {
		res := Val{S: "Tuple", T: i.Type()}
		for k := range vals[0].Tuple {
			kk := k
			res.Tuple = append(res.Tuple, merge(func(v Val) Val { return v.Tuple[kk] }))
		}
		return res, out
	}
	return merge(func(v Val) Val { return v }), out
}

// applyContract: assert requires, havoc modifies, assume ensures.
func (f *Frame) applyContract(callee *ssa.Function, ct *FuncContract, args []Val, reach string, h *Heap, pos token.Pos, rt types.Type) (Val, string) {
	vc := f.vc
	entry := h.clone()
	ctx := &SpecCtx{f: f, fn: callee, params: args, heap: entry, old: entry, binds: map[string]Val{}, pkg: pkgOf(callee)}
	for _, l := range ct.Lets {
		ctx.binds[l.Name] = ctx.eval(l.E)
	}
	for k, rq := range f.en.activeClauses(ct.Requires, ct) {
		t := ctx.evalBool(rq.E)
		label := rq.Label
		if label == "" {
			label = fmt.Sprint(k + 1)
		}
		name := f.callPath + vc.siteName("pre."+label+"@call "+callee.Name())
		// a call right after a control-flow join: one obligation per incoming path (as for
		// postconditions), so that the merged heap is never case-split by the solver
		var paths []string
		if f.depth == 0 && f.top && vc.curBlk >= 0 && vc.curBlk < len(f.fn.Blocks) && len(t) > 400 {
			paths = f.splitConds(f.fn.Blocks[vc.curBlk])
		}
		if len(paths) > 1 && len(paths) <= 8 {
			for pi, pc := range paths {
				vc.oblige(fmt.Sprintf("%s/path#%d", name, pi+1), "pre", implies(and(pc, reach), t), preProps(rq, f), f.where(pos)+" / via "+f.splitWhere[pi], "requires "+rq.Src+" of "+ct.Key)
			}
			continue
		}
		vc.oblige(name, "pre", implies(reach, t), preProps(rq, f), f.where(pos), "requires "+rq.Src+" of "+ct.Key)
	}
	if ct.NoReturn {
		return f.freshVal("noret", rt, h), "false"
	}
	// the callee may allocate: the counter moves before the havoc, so that havocked cells may
	// hold references to the callee's allocations
	newNow := vc.fresh(f.prefix+"now", "Int")
	vc.assume(app(">=", newNow, h.now))
	h.now = newNow
	// modifies
	if ct.ModAll {
		f.frameCheckAll(reach, pos)
		vc.havocAll(h)
	}
	if ct.ModInferred {
		eff := f.en.effects(callee)
		if os.Getenv("GOVC_DEBUG_EFF") != "" {
			fmt.Fprintf(os.Stderr, "effects of %s: all=%v comps=%v\n", funcKey(callee), eff.all, sortedKeys(eff.comps))
		}
		if eff.all {
			f.frameCheckAll(reach, pos)
			vc.havocAll(h)
		}
		for _, comp := range sortedKeys(eff.comps) {
			if s := eff.comps[comp]; s == "MapDom" || s == "MapVal" {
				vc.mapSort(comp, f.en.mapSortMemo[comp])
			}
			f.frameCheckComp(comp, reach, pos)
			vc.havocComp(h, comp, eff.comps[comp])
		}
		for _, x := range sortedKeys(eff.unknownExt) {
			vc.assumed = append(vc.assumed, "external function without contract assumed to write no modelled memory: "+x)
		}
	}
	for _, m := range ct.Modifies {
		ctx.havocLvalue(m, h, reach, pos, true)
	}
	res := f.freshVal(f.prefix+"res "+callee.Name(), rt, h)
	// ghost variables of the callee's loops that its postcondition mentions are existentially
	// quantified for the caller: fresh constants
	for _, n := range sortedKeysInt(ct.LoopGhost) {
		for _, g := range ct.LoopGhost[n] {
			gt, srt := ctx.resolveType(g.Sort)
			ctx.binds[g.Name] = Val{S: srt, E: vc.fresh(f.prefix+"ghost "+callee.Name()+"."+g.Name, srt), T: gt}
		}
	}
	post := &SpecCtx{f: f, fn: callee, params: args, heap: h, old: entry, binds: ctx.binds, result: &res, pkg: ctx.pkg}
	for _, en := range f.en.activeClauses(ct.Ensures, ct) {
		vc.assume(implies(reach, vc.assumedClause(post, en.E)))
	}
	for _, en := range f.en.activeClauses(ct.Assumes, ct) {
		vc.assume(implies(reach, vc.assumedClause(post, en.E)))
		vc.assumed = append(vc.assumed, "assumed postcondition of "+ct.Key+" (not proved): "+en.Src)
	}
	return res, reach
}

func pkgOf(fn *ssa.Function) *types.Package {
	if o := fn.Origin(); o != nil {
		fn = o
	}
	if fn.Pkg != nil {
		return fn.Pkg.Pkg
	}
	if fn.Object() != nil {
		return fn.Object().Pkg()
	}
	return nil
}

func (en *Engine) inRepo(fn *ssa.Function) bool {
	if o := fn.Origin(); o != nil {
		fn = o
	}
	if fn.Pkg != nil {
		return en.u.repoPkgs[fn.Pkg.Pkg.Path()]
	}
	if fn.Object() != nil && fn.Object().Pkg() != nil {
		return en.u.repoPkgs[fn.Object().Pkg().Path()]
	}
	// synthetic wrappers of repo methods
	if fn.Signature.Recv() != nil {
		t := fn.Signature.Recv().Type()
		if p, ok := t.(*types.Pointer); ok {
			t = p.Elem()
		}
		if n, ok := t.(*types.Named); ok && n.Obj().Pkg() != nil {
			return en.u.repoPkgs[n.Obj().Pkg().Path()]
		}
	}
	return false
}

// preProps: a call-site obligation for a tagged requires clause serves only the tagged
// properties (and only where the calling function serves them too).
func preProps(rq Clause, f *Frame) []string {
	if len(rq.Props) == 0 {
		return f.ctProps()
	}
	return rq.Props
}

// ctProps: the property tags of the function under verification (root frame).
func (f *Frame) ctProps() []string {
	r := f.frameRoot()
	if r.ct != nil {
		return r.ct.Props
	}
	return f.props
}

func sortedKeysInt[V any](m map[int]V) []int {
	ks := make([]int, 0, len(m))
	for k := range m {
		ks = append(ks, k)
	}
	sort.Ints(ks)
	return ks
}
