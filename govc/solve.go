package main

import (
	"context"
	"fmt"
	"os"
	"os/exec"
	"path/filepath"
	"regexp"
	"strings"
	"sync"
	"time"
)

type SolveResult struct {
	Status  string // unsat sat unknown timeout error
	Backend string
	Time    float64
	Output  string // raw output of the deciding (or last) solver
	All     map[string]string
	File    string
}

type solverSpec struct {
	name string
	args func(file string, timeoutS int) []string
}

var solvers = []solverSpec{
	{"z3-new", func(f string, t int) []string { return []string{"z3-new", fmt.Sprintf("-T:%d", t), f} }},
	{"z3", func(f string, t int) []string { return []string{"z3", fmt.Sprintf("-T:%d", t), f} }},
	{"cvc5", func(f string, t int) []string {
		return []string{"cvc5", fmt.Sprintf("--tlimit=%d", t*1000), "--full-saturate-quant", f}
	}},
}

var safeName = regexp.MustCompile(`[^A-Za-z0-9_.\-]+`)

func obligFile(dir, name string) string {
	s := safeName.ReplaceAllString(name, "_")
	if len(s) > 150 {
		s = s[:150]
	}
	return filepath.Join(dir, s+".smt2")
}

// second-chance configurations: the same solvers with other random seeds. A proof that exists
// but is missed by the default heuristics is usually found by one of them (instability of
// quantifier instantiation, not of the obligation).
var retrySolvers = []solverSpec{
	{"z3(seed=1)", func(f string, t int) []string { return []string{"z3", fmt.Sprintf("-T:%d", t), "smt.random_seed=1", f} }},
	{"z3(seed=2)", func(f string, t int) []string { return []string{"z3", fmt.Sprintf("-T:%d", t), "smt.random_seed=2", f} }},
	{"z3-new(seed=1)", func(f string, t int) []string {
		return []string{"z3-new", fmt.Sprintf("-T:%d", t), "smt.random_seed=1", f}
	}},
	{"z3-new(seed=2)", func(f string, t int) []string {
		return []string{"z3-new", fmt.Sprintf("-T:%d", t), "smt.random_seed=2", f}
	}},
}

// solve races the solvers on one query. all=true runs every solver to completion.
func solve(file string, timeoutS int, all bool) SolveResult {
	res := solveWith(solvers, file, timeoutS, all)
	if res.Backend == "" && res.Status != "error" && !strings.Contains(filepath.Base(file), "_smoke.") && !strings.Contains(filepath.Base(file), "_cover.") {
		r2 := solveWith(retrySolvers, file, timeoutS, false)
		r2.Time += res.Time
		for k, v := range res.All {
			r2.All[k] = v
		}
		if r2.Backend != "" {
			return r2
		}
		res.Time = r2.Time
		res.All = r2.All
	}
	return res
}

func solveWith(solvers []solverSpec, file string, timeoutS int, all bool) SolveResult {
	ctx, cancel := context.WithCancel(context.Background())
	defer cancel()
	type one struct {
		name, status, out string
		t                 float64
	}
	ch := make(chan one, len(solvers))
	start := time.Now()
	for _, s := range solvers {
		go func(s solverSpec) {
			a := s.args(file, timeoutS)
			c, cc := context.WithTimeout(ctx, time.Duration(timeoutS+2)*time.Second)
			defer cc()
			cmd := exec.CommandContext(c, a[0], a[1:]...)
			out, _ := cmd.CombinedOutput()
			first := ""
			for _, l := range strings.Split(string(out), "\n") {
				l = strings.TrimSpace(l)
				if l == "sat" || l == "unsat" || l == "unknown" || l == "timeout" {
					first = l
					break
				}
			}
			for _, l := range strings.Split(string(out), "\n") {
				// a malformed query must never count as an answer
				// (get-model) after "unsat" is answered with an error by z3 4.8 and cvc5: benign
				if strings.Contains(l, "(error ") && !strings.Contains(l, "model is not available") && !strings.Contains(l, "Cannot get model") {
					first = "error"
				}
			}
			if first == "" {
				if c.Err() != nil {
					first = "timeout"
				} else {
					first = "error"
				}
			}
			ch <- one{s.name, first, string(out), time.Since(start).Seconds()}
		}(s)
	}
	res := SolveResult{Status: "unknown", All: map[string]string{}, File: file}
	var unknownOut string
	for i := 0; i < len(solvers); i++ {
		o := <-ch
		res.All[o.name] = o.status
		if o.status == "unsat" || o.status == "sat" {
			if res.Backend == "" {
				res.Status, res.Backend, res.Time, res.Output = o.status, o.name, o.t, o.out
				if !all {
					cancel()
					return res
				}
			} else if res.Status != o.status {
				res.Status = "disagree"
			}
		} else {
			if o.status == "unknown" && strings.Contains(o.out, "define-fun") {
				unknownOut = o.out
			} else if unknownOut == "" {
				unknownOut = o.out
			}
			if o.status == "error" && res.Backend == "" {
				res.Output = o.out
			}
		}
	}
	if res.Backend == "" {
		res.Time = time.Since(start).Seconds()
		st := "timeout"
		for _, s := range res.All {
			if s == "unknown" {
				st = "unknown"
			}
		}
		allErr := true
		for _, s := range res.All {
			if s != "error" {
				allErr = false
			}
		}
		if allErr {
			st = "error"
		}
		res.Status = st
		if unknownOut != "" {
			res.Output = unknownOut
		}
	}
	return res
}

// runAll solves all obligations in parallel.
func runAll(files []string, timeoutS, par int, all bool) []SolveResult {
	res := make([]SolveResult, len(files))
	var wg sync.WaitGroup
	sem := make(chan struct{}, par)
	for i, f := range files {
		wg.Add(1)
		sem <- struct{}{}
		go func(i int, f string) {
			defer wg.Done()
			defer func() { <-sem }()
			t := timeoutS
			if b := filepath.Base(f); (strings.Contains(b, "_cover.") || strings.Contains(b, "_smoke.ctx")) && t > 3 {
				t = 3 // vacuity checks only need to notice a quick "unsat"
			} else if strings.Contains(b, "_smoke.path") && t > 1 {
				t = 1
			}
			res[i] = solve(f, t, all)
		}(i, f)
	}
	wg.Wait()
	return res
}

func writeFile(path, content string) error {
	if err := os.MkdirAll(filepath.Dir(path), 0o755); err != nil {
		return err
	}
	return os.WriteFile(path, []byte(content), 0o644)
}
