package main

import (
	"encoding/json"
	"fmt"
	"os"
	"os/exec"
	"path/filepath"
	"strings"
	"time"
)

// replayMain implements `./check --replay <file>`: it shows a recorded violation again on the
// CURRENT working tree. A replay file that carries a failing input (replay_test) is re-run against
// the real code with `go test -overlay`; one without input has its obligation posed again (the
// property's quick check on the current tree, no evidence written). Exit 1 when the violation
// shows again, 0 when it does not, 2 when the file cannot be used.
func replayMain(path string) int {
	data, err := os.ReadFile(path)
	if err != nil {
		fmt.Println("ENGINE-ERROR: cannot read", path, err)
		return 2
	}
	var rec map[string]any
	if json.Unmarshal(data, &rec) != nil {
		fmt.Println("ENGINE-ERROR: not a replay file:", path)
		return 2
	}
	str := func(k string) string { s, _ := rec[k].(string); return s }
	prop, obl := str("property"), str("obligation")
	fmt.Printf("replay of %s (property %s)\n  clause: %s\n  where:  %s\n", obl, prop, str("clause")+str("what"), str("where"))
	repo := envOr("VERIF_REPO", "/repo")
	if src := str("replay_test"); src != "" && rec["failing_input_found"] == true {
		dir := replayPkgDir(repo, str("function"))
		if dir == "" {
			fmt.Println("ENGINE-ERROR: cannot locate the package of", str("function"))
			return 2
		}
		scratch, err := os.MkdirTemp("", "govc-replay-")
		if err != nil {
			fmt.Println("ENGINE-ERROR:", err)
			return 2
		}
		defer os.RemoveAll(scratch)
		testFile := filepath.Join(scratch, "zz_govc_replay_test.go")
		os.WriteFile(testFile, []byte(src), 0o644)
		ov, _ := json.Marshal(map[string]any{"Replace": map[string]string{filepath.Join(dir, "zz_govc_replay_test.go"): testFile}})
		ovFile := filepath.Join(scratch, "overlay.json")
		os.WriteFile(ovFile, ov, 0o644)
		cmd := exec.Command("go", "test", "-overlay", ovFile, "-vet=off", "-count=1", "-timeout", "60s", "-run", "^TestGovcReplay$", "-v", ".")
		cmd.Dir = dir
		cmd.Env = cleanEnv()
		done := make(chan struct{})
		var out []byte
		go func() { out, _ = cmd.CombinedOutput(); close(done) }()
		select {
		case <-done:
		case <-time.After(120 * time.Second):
			if cmd.Process != nil {
				cmd.Process.Kill()
			}
			fmt.Println("the replay test did not finish within 120 s")
			return 2
		}
		log := string(out)
		fmt.Println("  inputs:", rec["inputs"])
		fmt.Println("--- the generated test, run against", dir, "---")
		fmt.Println(strings.TrimSpace(log))
		var lines []string
		for _, l := range strings.Split(log, "\n") {
			if strings.HasPrefix(l, "GOVC-") {
				lines = append(lines, strings.TrimSpace(l))
			}
		}
		was, _ := rec["replay_log"].(string)
		same := true
		for _, l := range lines {
			if !strings.Contains(was, l) {
				same = false
			}
		}
		if len(lines) > 0 && same {
			fmt.Printf("VIOLATION property=%s replay=%s obligation=%s (the real code behaves as recorded)\n", prop, path, obl)
			return 1
		}
		fmt.Println("the real code no longer behaves as recorded: the violation does not show on the current tree")
		return 0
	}
	// no failing input: pose the obligation again
	self, _ := os.Executable()
	run := exec.Command(self, "check", prop, "quick")
	run.Dir = envOr("VERIF_DIR", "/verif")
	run.Env = append(os.Environ(), "VERIF_CANARY=replay")
	o, _ := run.CombinedOutput()
	found := false
	for _, l := range strings.Split(string(o), "\n") {
		if strings.HasPrefix(l, "VIOLATION ") && strings.Contains(l, "obligation="+obl) {
			found = true
		}
	}
	if so := str("solver_output"); so != "" {
		fmt.Println("  recorded solver answer:", truncate(strings.TrimSpace(so), 300))
	}
	os.RemoveAll(filepath.Join(run.Dir, "out", "canary", "replay"))
	if found {
		fmt.Printf("VIOLATION property=%s replay=%s obligation=%s no-failing-input-found (the obligation fails again on the current tree)\n", prop, path, obl)
		return 1
	}
	fmt.Println("the obligation is discharged (or no longer generated) on the current tree: the violation does not show")
	return 0
}

func replayPkgDir(repo, fn string) string {
	pkg := fn
	if i := strings.Index(pkg, "."); i > 0 {
		pkg = pkg[:i]
	}
	switch pkg {
	case "main":
		return repo
	case "libvore":
		return filepath.Join(repo, "libvore")
	case "ast", "bytecode", "ds", "engine", "files", "algo":
		return filepath.Join(repo, "libvore", pkg)
	}
	return ""
}
