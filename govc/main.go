package main

import (
	"flag"
	"fmt"
	"go/types"
	"os"
	"path/filepath"
	"sort"
	"strings"

	"golang.org/x/tools/go/packages"
	"golang.org/x/tools/go/ssa"
	"golang.org/x/tools/go/ssa/ssautil"
)

const modPath = "github.com/jmeaster30/vore"

func loadEngine(repo, specDir string) (*Engine, error) {
	cfg := &packages.Config{Mode: packages.LoadAllSyntax, Dir: repo, BuildFlags: []string{"-tags=verif"}, Env: cleanEnv()}
	pkgs, err := packages.Load(cfg, modPath+"/libvore/...", modPath)
	if err != nil {
		return nil, err
	}
	nerr := 0
	packages.Visit(pkgs, nil, func(p *packages.Package) {
		for _, e := range p.Errors {
			fmt.Fprintln(os.Stderr, "load error:", e)
			nerr++
		}
	})
	if nerr > 0 {
		return nil, fmt.Errorf("%d package load errors", nerr)
	}
	prog, spkgs := ssautil.AllPackages(pkgs, ssa.InstantiateGenerics|ssa.GlobalDebug)
	prog.Build()
	repoPkgs := map[string]bool{}
	en := &Engine{prog: prog, cs: newContracts(), funcs: map[string]*ssa.Function{}, pkgs: map[string]*ssa.Package{}, inlineMax: 8, mapSortMemo: map[string]string{}}
	for i, sp := range spkgs {
		if sp == nil {
			continue
		}
		if strings.HasPrefix(sp.Pkg.Path(), modPath) {
			repoPkgs[sp.Pkg.Path()] = true
			en.pkgs[sp.Pkg.Name()] = sp
			if en.tinfo == nil {
				en.tinfo = map[string]*types.Info{}
			}
			en.tinfo[sp.Pkg.Path()] = pkgs[i].TypesInfo
			en.fset = pkgs[i].Fset
			// contract files
			for _, f := range pkgs[i].GoFiles {
				if strings.HasSuffix(f, "zz_contracts_verif.go") {
					if err := en.cs.loadContractFile(f, sp.Pkg.Name()); err != nil {
						return nil, err
					}
				}
			}
			dir := ""
			if len(pkgs[i].GoFiles) > 0 {
				dir = filepath.Dir(pkgs[i].GoFiles[0])
			}
			_ = dir
		}
	}
	en.fset = prog.Fset
	specs, _ := filepath.Glob(filepath.Join(specDir, "*.spec"))
	for _, s := range specs {
		if err := en.cs.loadContractFile(s, ""); err != nil {
			return nil, err
		}
	}
	doc, samples, err := docSpecText(repo)
	if err != nil {
		return nil, fmt.Errorf("documented tables: %v", err)
	}
	en.docSamples = samples
	if err := en.cs.loadContractText("docs/language/LanguageDetails.md(generated)", "", doc); err != nil {
		return nil, err
	}
	en.u = newUniverse(prog, repoPkgs)
	for fn := range allFunctions(prog) {
		k := funcKey(fn)
		if old, ok := en.funcs[k]; ok {
			// prefer the generic origin / non-synthetic
			if old.Synthetic == "" && fn.Synthetic != "" {
				continue
			}
			if len(old.TypeArgs()) == 0 && len(fn.TypeArgs()) > 0 {
				continue
			}
		}
		en.funcs[k] = fn
	}
	en.inst = map[string][]*ssa.Function{}
	for fn := range allFunctions(prog) {
		if len(fn.TypeArgs()) > 0 && fn.Blocks != nil && fn.Synthetic != "" && !strings.HasPrefix(fn.Synthetic, "instance of") {
			continue
		}
		if len(fn.TypeArgs()) > 0 && fn.Blocks != nil {
			k := funcKey(fn)
			en.inst[k] = append(en.inst[k], fn)
		}
	}
	for k := range en.inst {
		fs := en.inst[k]
		sort.Slice(fs, func(i, j int) bool { return fs[i].String() < fs[j].String() })
	}
	en.scanUniverse()
	// ghost fields
	for _, g := range en.cs.Ghosts {
		var tpkg *types.Package
		if sp := en.pkgs[g.Pkg]; sp != nil {
			tpkg = sp.Pkg
		}
		tp := en.lookupType(strings.TrimPrefix(g.Type, "*"), tpkg)
		if tp == nil {
			return nil, fmt.Errorf("ghost field on unknown type %s", g.Type)
		}
		en.u.structSort(tp)
		k := typeKey(tp)
		en.u.ghost[k] = append(en.u.ghost[k], GhostField{g.Name, g.Sort})
	}
	return en, nil
}

func cleanEnv() []string {
	var env []string
	for _, e := range os.Environ() {
		if strings.HasPrefix(e, "GOFLAGS=") || strings.HasPrefix(e, "GOWORK=") {
			continue
		}
		env = append(env, e)
	}
	return append(env, "GOFLAGS=", "GOPROXY=off", "GOSUMDB=off", "GOTOOLCHAIN=local")
}

func main() {
	if len(os.Args) > 1 && os.Args[1] == "check" {
		os.Exit(checkMain(os.Args[2:]))
	}
	if len(os.Args) > 2 && os.Args[1] == "replay" {
		os.Exit(replayMain(os.Args[2]))
	}
	repo := flag.String("repo", "/repo", "")
	spec := flag.String("spec", "/verif/spec", "")
	out := flag.String("out", "/verif/out/dev", "")
	fn := flag.String("func", "", "function key")
	timeout := flag.Int("timeout", 10, "")
	dump := flag.Bool("dump", false, "")
	quiet := flag.Bool("q", false, "print failures only")
	prop := flag.String("prop", "", "use only the clauses that serve this property (as the check does)")
	flag.Parse()
	en, err := loadEngine(*repo, *spec)
	if err != nil {
		fmt.Fprintln(os.Stderr, "govc:", err)
		os.Exit(2)
	}
	en.activeProp = *prop
	var keys []string
	if *fn != "" {
		keys = strings.Split(*fn, ",")
	} else {
		for _, k := range sortedKeys(en.cs.Funcs) {
			ct := en.cs.Funcs[k]
			if !ct.Trusted && !ct.Inline {
				keys = append(keys, k)
			}
		}
	}
	bad := 0
	for _, k := range keys {
		ct := en.cs.Funcs[k]
		f := en.funcs[k]
		if f == nil || ct == nil {
			fmt.Println("no function/contract for", k)
			bad++
			continue
		}
		if *dump {
			f.WriteTo(os.Stdout)
		}
		vc := en.verifyFunc(f, ct)
		for _, e := range vc.errs {
			fmt.Println("  ERROR:", e)
			bad++
		}
		var files []string
		for _, o := range vc.obls {
			p := obligFile(*out, o.Name)
			writeFile(p, en.assemble(vc, o, true))
			files = append(files, p)
		}
		res := runAll(files, *timeout, 16, false)
		for i, o := range vc.obls {
			r := res[i]
			ok := r.Status == "unsat"
			if o.WantSat {
				ok = r.Status != "unsat" || o.Dead
			}
			mark := "ok  "
			if !ok {
				mark = "FAIL"
				bad++
			}
			if *quiet {
				if !ok {
					w := o.Where
					if j := strings.LastIndex(w, "/ "); j >= 0 {
						w = w[j+2:]
					}
					fmt.Printf("FAIL %-7s %s [%s]\n", r.Status, o.Name, w)
				}
				continue
			}
			fmt.Printf("%s %-8s %-7s %5.2fs %s   [%s] %s\n", mark, r.Status, r.Backend, r.Time, o.Name, o.Where, o.Src)
		}
		if !*quiet {
			for _, n := range vc.notes {
				fmt.Println("  note:", n)
			}
			for _, n := range vc.assumed {
				fmt.Println("  assumed:", n)
			}
		}
	}
	if bad > 0 {
		os.Exit(1)
	}
}
