#!/bin/sh
# Applies each harmless edit (comments and line shifts, renamed locals, reordered independent
# statements) to /repo, runs the given checks (default: all claimed), and undoes it.
# Every check must exit 0: an alarm here is a false alarm of the machinery.
unset GOFLAGS GOWORK; export GOPROXY=off GOSUMDB=off GOTOOLCHAIN=local
cd /repo || exit 2
if [ -n "$(git status --porcelain --untracked-files=no)" ]; then echo "run_harmless: /repo has uncommitted changes, refusing"; exit 2; fi
props="$*"; [ -z "$props" ] && props=$(python3 -c "import json;print(' '.join(sorted(json.load(open('/verif/claims.json')))))")
bk=$(mktemp -d /root/scratch/evbk.XXXX 2>/dev/null || mktemp -d); cp /verif/evidence/*.json "$bk"/ 2>/dev/null
rc=0
for h in /verif/selftest/harmless/*.diff; do
  git apply "$h" || { echo "$(basename $h): does not apply (the code changed): skipped"; continue; }
  for p in $props; do
    out=$(cd /verif && ./check $p quick 2>&1); r=$?
    [ $r -ne 0 ] && { rc=1; echo "$(basename $h) $p exit=$r"; echo "$out" | grep -E '^(VIOLATION|ENGINE-ERROR)' | head -3; }
  done
  git checkout -- .
  echo "$(basename $h): done"
done
cp "$bk"/*.json /verif/evidence/ 2>/dev/null; rm -rf "$bk"
[ $rc -eq 0 ] && echo "harmless edits: no alarm"
exit $rc
