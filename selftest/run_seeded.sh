#!/bin/sh
# usage: run_seeded.sh <patch.diff> <property> [more properties...]
# Applies a property-breaking change to /repo, runs the quick check(s), and undoes it.
# Exit 0 when at least one of the checks reports a VIOLATION (the change is caught).
unset GOFLAGS GOWORK; export GOPROXY=off GOSUMDB=off GOTOOLCHAIN=local
patch="$1"; shift
cd /repo || exit 2
if [ -n "$(git status --porcelain --untracked-files=no)" ]; then echo "run_seeded: /repo has uncommitted changes, refusing"; exit 2; fi
if git apply --check "$patch" 2>/dev/null; then git apply "$patch"
elif git apply -3 "$patch" 2>/dev/null && [ -z "$(git diff --name-only --diff-filter=U)" ]; then git reset -q
elif patch -p1 -s -F3 --no-backup-if-mismatch < "$patch"; then :
else echo "run_seeded: patch does not apply"; git reset -q --hard HEAD; git clean -fdq -- libvore main.go 2>/dev/null; exit 2; fi
(cd libvore && go build ./... ) || { echo "run_seeded: does not build"; git checkout -- .; exit 2; }
caught=1
bk=$(mktemp -d /root/scratch/evbk.XXXX)
cp /verif/evidence/*.json "$bk"/ 2>/dev/null
for p in "$@"; do
  out=$(cd /verif && ./check "$p" quick 2>&1); rc=$?
  echo "$out" | grep -E '^(VIOLATION|ENGINE-ERROR|KNOWN-FINDING|C[0-9]+ )' | cut -c1-260
  echo "check $p exit=$rc"
  [ $rc -eq 1 ] && caught=0
done
git reset -q --hard HEAD
git clean -fdq -- libvore main.go 2>/dev/null
# the evidence files must describe the unchanged tree: restore them
cp "$bk"/*.json /verif/evidence/ 2>/dev/null; rm -rf "$bk"
exit $caught
