#!/bin/bash
# Regression of the must-fail corpus: every seeded change must be reported by the check recorded
# in its meta.json (caught_by[0].check). Prints one line per change; exit 1 if any is missed.
out=${1:-/root/scratch/seeded_regression.txt}; : > $out; miss=0
for d in /verif/seeded/*/; do
  id=$(basename $d)
  p=$(python3 -c "import json;m=json.load(open('$d/meta.json'));print(m['caught_by'][0]['check'] if m.get('caught_by') else m['breaks_property'])")
  o=$(/verif/selftest/run_seeded.sh $d/patch.diff $p 2>&1); rc=$?
  n=$(echo "$o" | grep -c '^VIOLATION'); rp=$(echo "$o" | grep '^VIOLATION' | grep -vc 'no-failing-input-found')
  eng=$(echo "$o" | grep -m1 '^ENGINE-ERROR' | cut -c1-120)
  echo "$id check=$p caught=$([ $rc -eq 0 ] && echo yes || echo NO) violations=$n replayed=$rp $eng" >> $out
  [ $rc -ne 0 ] && miss=1
done
echo "done miss=$miss" >> $out
exit $miss
