#!/bin/sh
# runs every claimed check (quick) on the current tree; prints one line per property
cd /verif
rc=0
for p in $(python3 -c "import json;print(' '.join(sorted(json.load(open('/verif/claims.json')))))"); do
  s=$(date +%s)
  out=$(./check $p ${1:-quick} 2>&1); r=$?
  e=$(date +%s)
  echo "$p exit=$r $((e-s))s $(echo "$out" | tail -1)"
  echo "$out" | grep -E "^(VIOLATION|KNOWN-FINDING|ENGINE-ERROR)" | head -5
  [ $r -ne 0 ] && rc=1
done
exit $rc
