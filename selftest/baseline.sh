#!/bin/sh
# runs the repository's pinned suite with the guard off; exit 0 iff everything passes
unset GOFLAGS GOWORK; export GOPROXY=off GOSUMDB=off GOTOOLCHAIN=local
rc=0
for m in . libvore libvore/algo libvore/ast libvore/bytecode libvore/ds libvore/engine libvore/files libvore/testutils; do
  (cd ${VERIF_REPO:-/repo}/$m && go test -vet=off -count=1 ./... >/tmp/baseline.$$ 2>&1) || { rc=1; cat /tmp/baseline.$$; }
done
rm -f /tmp/baseline.$$
[ $rc -eq 0 ] && echo "baseline: all modules pass"
exit $rc
