#!/usr/bin/env python3
# Regenerates MANIFEST.json from claims.json (the per-property claim texts) and properties.jsonl.
import json, subprocess
props=[json.loads(l) for l in open('/verif/properties.jsonl')]
claims=json.load(open('/verif/claims.json'))
hooks=subprocess.run(['git','-C','/repo','log','--format=%h %s','--grep=^verif hook'],capture_output=True,text=True).stdout.strip().split('\n')
checks=[];na=[]
for p in props:
    c=claims.get(p['id'])
    if not c or 'not_applicable' in c:
        na.append({"property_id":p['id'],"reason":(c or {}).get('not_applicable','not yet under contract: no check claimed in this revision')})
        continue
    checks.append({"property_id":p['id'],"quick_cmd":"./check %s quick"%p['id'],"thorough_cmd":"./check %s thorough"%p['id'],
      "evidence_file":"/verif/evidence/%s.json"%p['id'],"replay_cmd_template":"./check --replay {path}","engine":"govc",
      "level_claimed":{"category":c.get('category','proof'),"text":c['text'],"design_ref":c.get('design_ref','DESIGN.md §4 '+p['id'])},
      "level_note":c['note'],"technique":c.get('technique','contract-based deductive verification: weakest-precondition VCs generated from go/ssa of the real functions against //@ contracts, discharged by z3/cvc5')})
m={"version":1,"setup_cmd":"./setup.sh",
 "hooks":{"guard":"verif","enable":"go build -tags verif (the tag only adds comment-only contract files zz_contracts_verif.go; govc loads /repo with -tags=verif)",
   "baseline_off_cmd":"for m in . libvore libvore/algo libvore/ast libvore/bytecode libvore/ds libvore/engine libvore/files libvore/testutils; do (cd /repo/$m && GOFLAGS= GOPROXY=off GOSUMDB=off go test -vet=off -count=1 ./...) || exit 1; done",
   "source_commits":[h.split()[0] for h in hooks if h],"add_only":True},
 "engines":[{"name":"govc","path":"/verif/govc","serves_properties":[c['property_id'] for c in checks],"kind_free_text":"home-made deductive verifier for Go: VC generation (weakest preconditions over go/ssa, field-split heap, loop invariants, calls by contract) + SMT (z3 5.1.0, z3 4.8.12, cvc5 1.0.3 raced)"}],
 "checks":checks,"not_applicable":na,
 "notes":"Contracts live in /repo/**/zz_contracts_verif.go (build tag verif, comment-only) and /verif/spec/*.spec. Known findings: /verif/known_findings.json. See DESIGN.md."}
json.dump(m,open('/verif/MANIFEST.json','w'),indent=1)
print(len(checks),'claimed',len(na),'not applicable')
